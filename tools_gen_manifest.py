#!/usr/bin/env python3
"""Regenerates MANIFEST.json from the table below (kept as code so that the manifest stays valid and consistent)."""
import json, os

HERE = os.path.dirname(os.path.abspath(__file__))

CLAIMED = {
    "C04": dict(
        category="fault_enumeration", design_ref="DESIGN.md 5.2",
        text="Deterministic simulation: seeded record streams are written through real buffering/gzip stacks onto a simulated raw device; the device content is ended at every byte offset, every raw write call is made to fail / be torn / be short, the writer is crashed after every API call, and what is on the simulated disk is read back through several reader stacks and delivery schedules and judged against an acknowledged-frame reference model. Enumeration of the fault space per stream, seeded sampling over streams: evidence, not proof.",
        note="Trusted: msgpack and zlib as used by the independent frame walker / decompressor; SimFS fidelity (self-tested against the real file system); process-crash model (no power-loss reordering); value domain limited to types that round-trip on the pinned tree.",
        technique="deterministic simulation + fault enumeration (crash at every byte, failing/torn/short writes, crash after every call) against an acknowledged-frame reference model",
    ),
    "C03": dict(
        category="exploration", design_ref="DESIGN.md 5.1",
        text="Deterministic simulation: up to four writers of mixed kinds (binary on a raw device, path based, gzip, JSON lines) are open at the same time in one process and stepped in a seeded interleaving, with readers reading the simulated disk between their steps, over a descriptor pool built to collide (same name / other fields, coinciding identifiers incl. a genuine 32-bit hash collision, nested-only and grouped-only types, equal descriptors created twice). Every stream is checked with an independent frame walker against a per-stream registry model and read back with the library's reader. All histories of <= 3 writes over 2 writers over the core pool are enumerated, longer ones are sampled.",
        note="Trusted: msgpack/json as used by the independent walker; the interleaving granularity is one API call (the library is synchronous); identifier coincidences inside one record tree are outside the domain (the wire format cannot represent them).",
        technique="deterministic simulation: seeded interleaving of concurrently open writers/readers, bounded-exhaustive short histories + random long ones, per-stream reference registry model",
    ),
    "C17": dict(
        category="exploration", design_ref="DESIGN.md 5.5",
        text="Deterministic simulation of writer life cycles: every body of <= 5 write/flush calls x 6 ways of ending (close, double close, flush+close, with-exit, with-body-raises, exit+close) for 22 writer targets is enumerated, longer histories and split arithmetic (limits 1..7, all residues, suffix lengths) are sampled, and time-templated archiving runs under a simulated clock (same-second bursts, hour/day steps, backward jumps, skewed record stamps, restarts, pre-existing files). Oracle: conservation against the list of acknowledged writes through the library reader and independent decoders, double-close idempotence, split limits / per-part readability / byte concatenation, and 'no rename or open ever replaced an existing file' read off the simulated file system's event log.",
        note="Trusted: SimFS fidelity (self-tested against the real file system), the independent decoders (gzip/bz2/lz4/zstandard/json/csv/fastavro/sqlite3). Finaliser timing is outside the histories. One known finding (stream writer closed with no records and no flush leaves no header; pinned by an existing test) is listed in KNOWN_FINDINGS.txt.",
        technique="deterministic simulation: bounded-exhaustive call histories per adapter + seeded histories, simulated clock and file system (rename/truncate event log), conservation oracle",
    ),
    "C18": dict(
        category="exploration", design_ref="DESIGN.md 5.6",
        text="Deterministic simulation with a real SQLite engine: one SqliteWriter, independent observer connections that look between any two writer calls, a lock holder that keeps a read transaction open across the writer's commits (raw connection or the library's own SqliteReader suspended between batches), releases, and crash snapshots (db + journal copied and opened) are scheduled by a seeded plan over gain-only schema evolution with SQL-keyword/mixed-case/slashed names and boundary values; every workload is re-executed under a second batch size. Oracle: what any observer or snapshot sees is a prefix of the acknowledged rows whose length is a commit point of the documented policy and never shrinks; after close everything is there exactly once (refused-by-BUSY rows 0 or 1 times), shape and cell values match an independently computed expectation, SqliteReader returns the same values whatever its fetch batch (1 ... 100 000, given directly or through a sqlite:// URI; rare bulk plans reach tables of 10 007 / 16 390 rows), and content is identical across batch sizes; after the lock is released one retry of close() succeeds.",
        note="Trusted: the SQLite engine and its file locking (real, not simulated); crash = byte copy between two API calls; identifiers differing only by case and conflicting column re-declarations are outside the domain.",
        technique="deterministic simulation: seeded schedule of observer looks / lock holders / crash snapshots between writer calls against a committed-prefix reference model, real SQLite engine",
    ),
    "C11": dict(
        category="exploration", design_ref="DESIGN.md 5.3",
        text="Deterministic simulation of how bytes arrive: files written by the library (one or two writers open at once) in every cell of the codec x container matrix are verified with each format's independent decompressor and then read back through 16 ways of naming the source (paths by extension or neutral, URIs, BytesIO and BufferedReader incl. non-zero offsets, bare raw objects, stdin in four forms, a FIFO, a zip member); for file objects and standard input the simulator owns the delivery schedule of the raw reads (whole, tiny first chunk, one byte at a time, chunk boundaries inside the codec magic / stream header / Avro magic). The fault-free result is the reference: naming and delivery must not change the records or the reader class. Seeded garbage (incl. magic-prefixed, compressed non-streams and shifted-header near misses) must be refused. The matrix is enumerated, record sequences, schedules and garbage are sampled.",
        note="Trusted: gzip/bz2/lz4/zstandard/fastavro as independent decoders. Short raw reads are applied to pipes-like sources (file objects, stdin) only. One known finding (single-shot peek on a short first raw read) is listed in KNOWN_FINDINGS.txt and matched counterfactually.",
        technique="deterministic simulation: seeded pipe/stdin delivery schedules over an exhaustive codec x container x naming matrix, fault-free run as reference model",
    ),
    "C16": dict(
        category="exploration", design_ref="DESIGN.md 5.4",
        text="Deterministic simulation of the command-line tool: rdump.main runs in-process against sources on a simulated file system, each with its own fault (missing, empty, garbage, directory, truncated at a frame-relative offset, raw read error at call j, unreadable JSON line, stdin with a delivery schedule), and its output (stdout or -w targets in 16 forms incl. --split) is decoded independently and compared, in order, with a reference pipeline over lists: intact prefix per source -> selector predicate -> skip/count slice -> metadata overrides -> projection/exclusion -> timestamp expansion. Every placement of one or two faulty sources among two good ones is enumerated; option mixes, codecs and record sequences are sampled; compiled and interpreted selectors are both driven.",
        note="Trusted: the reference pipeline (a few lines over lists) and the independent decoders (json, csv, line/text parsing). Selectors are limited to a sub-language with Python predicates; -c 0, duplicate -F names, Avro/SQLite targets and metadata of expanded records are outside the domain.",
        technique="deterministic simulation: in-process rdump over fault-injected simulated sources and stdio, enumerated fault placements + seeded option mixes, reference list pipeline as oracle",
    ),
}

BUILDING = {k: "simulation target per DESIGN.md; its check is still under construction and is therefore not claimed yet" for k in ()}

NOT_APPLICABLE = {
    "C01": "pure encode/decode function of its input (value identity of the codec): no schedule, clock, fault or crash point for a simulator to own; its I/O side is simulated under C04/C11/C03",
    "C02": "conformance to the frozen wire format against an independent codec and golden corpus: differential testing of pure functions, not a simulation target",
    "C05": "field typing under construct/assign/replace: in-memory assignments on one object, nothing nondeterministic and nothing to inject",
    "C06": "descriptor-name validation and exec safety: a predicate over strings",
    "C07": "two pure selector interpreters compared with Python semantics over generated programs: no schedule, clock or fault involved",
    "C08": "missing-field comparison table: exhaustive enumeration of a finite operator grammar over pure evaluators (its rdump consequence is exercised inside C16 with safe selectors)",
    "C09": "interpreted selector as sandbox: a claim over hostile AST shapes, pure",
    "C10": "selector-in-reader equals filter-afterwards: deterministic function of file content and selector; no interleaving in the quantifier",
    "C12": "equality/hash contract and scoped ignore list: pure, single-threaded; thread interleavings are outside the property's quantifier",
    "C13": "timezone-aware timestamps across formats and display settings: pure conversions, display setting read once at import, no clock read",
    "C14": "JSON lines round-trip: a pure codec",
    "C15": "extend/merge/expand/group/replace precedence: pure functions of records",
    "C19": "Avro value mapping and refusal: pure mapping (the Avro flush/close history is decided under C17)",
    "C20": "CSV/line/text rendering: pure renderers",
}


def main():
    checks = []
    for pid in sorted(CLAIMED):
        c = CLAIMED[pid]
        checks.append({
            "property_id": pid,
            "quick_cmd": "./check %s quick" % pid,
            "thorough_cmd": "./check %s thorough" % pid,
            "evidence_file": "/verif/evidence/%s.json" % pid,
            "replay_cmd_template": "./check %s --replay {path}" % pid,
            "engine": "simfr",
            "level_claimed": {"category": c["category"], "text": c["text"], "design_ref": c["design_ref"]},
            "level_note": c["note"],
            "technique": c["technique"],
        })
    na = [{"property_id": k, "reason": v} for k, v in sorted({**NOT_APPLICABLE, **BUILDING}.items())]
    m = {
        "version": 1,
        "setup_cmd": "/venv/bin/python -B -c \"import sys; sys.path.insert(0, '/verif'); from simfr import world; world.load_flow(); import msgpack, lz4.frame, zstandard, fastavro, bz2, gzip, sqlite3; print('setup ok')\"",
        "hooks": {
            "guard": "FLOW_RECORD_VERIF",
            "enable": "no source hooks are needed: the simulator rebinds module-level seams at run time (builtins.open/io.open, flow.record.stream.os/datetime, flow.record.base.os/_utcnow, gzip.time, sys.stdin/stdout, adapter.sqlite.sqlite3); checks export FLOW_RECORD_VERIF=1 for form",
            "baseline_off_cmd": "cd /repo && env -u FLOW_RECORD_VERIF PATH=/venv/bin:$PATH /venv/bin/python -m pytest -q -p no:cacheprovider --timeout=900 tests",
            "source_commits": [],
            "add_only": True,
        },
        "engines": [{
            "name": "simfr", "path": "/verif/simfr", "serves_properties": sorted(CLAIMED),
            "kind_free_text": "single-process deterministic simulator: plan-as-JSON generator, SimFS/SimRaw raw devices with fault plans and delivery schedules, SimClock, seeded fan-out over forked workers, delta-debugging minimiser, replay",
        }],
        "checks": checks,
        "notes": "See DESIGN.md (section 12 is the as-built account). Exit 0 = held (possibly with KNOWN-FINDING lines), 1 = VIOLATION, 2 = HARNESS-ERROR. Env: VERIF_SEED, VERIF_WORKERS, VERIF_RUNS, VERIF_BUDGET_S, VERIF_REPO. Self-tests: ./check selftest determinism|fidelity|sensitivity|specificity (sensitivity: every patch under mutants/ and seeded/ must be caught; specificity: every property-preserving patch under benign/ must leave the checks silent; results in evidence/sensitivity.json and evidence/specificity.json).",
        "not_applicable": na,
    }
    with open(os.path.join(HERE, "MANIFEST.json"), "w") as f:
        json.dump(m, f, indent=1)
        f.write("\n")


if __name__ == "__main__":
    main()
