#!/usr/bin/env python3
"""tools_mkmutant.py: build /verif/mutants/<name>.patch from textual replacements against /repo (no copy needed).

usage (from python):  mk("C04-read1", [("flow/record/stream.py", old, new), ...], "description")
"""
import difflib, os, sys

REPO = os.environ.get("VERIF_REPO", "/repo")
HERE = os.path.dirname(os.path.abspath(__file__))


def mk(name, edits, desc=""):
    out = []
    byfile = {}
    for path, old, new in edits:
        src = byfile.get(path)
        if src is None:
            src = open(os.path.join(REPO, path)).read()
            byfile[path] = src
        if old not in byfile[path]:
            raise SystemExit("%s: pattern not found in %s: %r" % (name, path, old[:60]))
        byfile[path] = byfile[path].replace(old, new, 1)
    for path, new_src in byfile.items():
        orig = open(os.path.join(REPO, path)).read()
        out += list(difflib.unified_diff(orig.splitlines(True), new_src.splitlines(True), "a/" + path, "b/" + path))
    with open(os.path.join(HERE, "mutants", name + ".patch"), "w") as f:
        if desc:
            f.write("# " + desc.replace("\n", "\n# ") + "\n")
        f.write("".join(out))
    print("wrote mutants/%s.patch" % name)
