#!/usr/bin/env python3
"""Verify a sub-agent's property-PRESERVING change and keep it under /verif/benign/<id>/.

usage: tools_import_benign.py <Cxx> <dir with patch.diff probe.py notes.md> <id>

Verification (in a scratch copy of /repo under /dev/shm, removed afterwards):
  1. probe.py on the pristine copy exits 0
  2. patch applies; the test suite gives the same outcome as on the pristine copy
  3. probe.py on the patched copy exits 0
Only then is the change copied, with meta.json recording what was run.  Whether the checks stay silent on it
is decided by `./check selftest specificity`, not here.
"""
import json, os, shutil, sys, tempfile, time

sys.path.insert(0, os.path.dirname(os.path.abspath(__file__)))
from tools_import_seeded import PY, run, suite  # noqa: E402


def main():
    prop, src, sid = sys.argv[1:4]
    root = tempfile.mkdtemp(prefix="simfr-benign-", dir="/dev/shm")
    repo = os.path.join(root, "repo")
    try:
        shutil.copytree("/repo", repo, ignore=shutil.ignore_patterns(".git", "__pycache__", "*.pyc", ".pytest_cache"))
        probe = os.path.join(src, "probe.py")
        env = {"PYTHONPATH": repo, "PATH": "/venv/bin:" + os.environ["PATH"]}
        rc0, out0 = run([PY, probe], root, env)
        if rc0 != 0:
            print("REJECT %s: probe fails on the pristine tree (rc %d)\n%s" % (sid, rc0, out0[-400:]))
            return 1
        base_line, base = suite(repo)
        rc, out = run(["patch", "-p1", "-s", "-i", os.path.join(src, "patch.diff")], repo)
        if rc != 0:
            print("REJECT %s: patch does not apply\n%s" % (sid, out[-400:]))
            return 1
        line, got = suite(repo)
        if got != base:
            print("REJECT %s: suite outcome differs: %s vs pristine %s (%s)" % (sid, line, base_line, got[0][:5]))
            return 1
        rc1, out1 = run([PY, probe], root, env)
        if rc1 != 0:
            print("REJECT %s: probe fails with the patch applied (rc %d): the change is not property-preserving by its own probe\n%s" % (sid, rc1, out1[-400:]))
            return 1
        dst = os.path.join(os.path.dirname(os.path.abspath(__file__)), "benign", sid)
        os.makedirs(dst, exist_ok=True)
        for f in ("patch.diff", "probe.py", "notes.md"):
            if os.path.exists(os.path.join(src, f)):
                shutil.copy(os.path.join(src, f), os.path.join(dst, f))
        meta = {
            "id": sid, "property": prop, "kind": "property-preserving change written by an independent sub-agent",
            "suite_pristine": base_line, "suite_patched": line, "probe_rc_pristine": rc0, "probe_rc_patched": rc1,
            "verified_at": time.strftime("%Y-%m-%dT%H:%M:%SZ", time.gmtime()),
        }  # fmt: skip
        json.dump(meta, open(os.path.join(dst, "meta.json"), "w"), indent=1)
        print("KEPT %s" % dst)
        return 0
    finally:
        shutil.rmtree(root, ignore_errors=True)


if __name__ == "__main__":
    sys.exit(main())
