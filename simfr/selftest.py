"""Self-tests of the machinery itself: determinism, stub fidelity, oracle bite, sensitivity.

./check selftest determinism [Cxx ...]   same plan twice in one process (with unrelated runs in
                                         between), in a fresh interpreter under another
                                         PYTHONHASHSEED, and at two worker counts
./check selftest fidelity                SimFS vs the real file system, frame walker vs golden frames
./check selftest sensitivity [Cxx ...]   every patch under /verif/mutants and /verif/seeded must be
                                         caught by the quick check of its property
./check selftest specificity [Cxx ...]   every property-preserving patch under /verif/benign must leave the quick
                                         check of every (named) property silent
Exit 0 = all good, 2 = a self-test failed (never 1: a self-test failure is not a property violation).
"""

import json
import os
import random
import shutil
import subprocess
import sys
import tempfile
import time

from . import driver

VERIF = driver.VERIF


def _digests(prop, tier, master, indices):
    scn = driver.load_scenario(prop)
    out = {}
    for i in indices:
        s = driver.run_seed(master, prop, i)
        plan = scn.generate(random.Random(s), tier, i)
        plan.update({"property": prop, "seed": s, "index": i, "tier": tier})
        o = driver.execute_guarded(scn, plan)
        out[str(i)] = [o["digest"], sorted(v["invariant"] for v in o["violations"]), o.get("evals", 0)]
    return out


def determinism(props, n=200, master=12345):
    all_ok = True
    for prop in props:
        ok = True
        t0 = time.time()
        scn = driver.load_scenario(prop)
        off = int(os.environ.get("VERIF_SELFTEST_OFFSET", "0"))
        idx = list(range(off, off + n))  # an offset beyond the systematic indices reaches the random plans
        first = _digests(prop, "quick", master, idx)
        # unrelated runs in between (other master seed), then again in reverse order
        _digests(prop, "quick", master + 1, idx[: n // 4])
        second = _digests(prop, "quick", master, list(reversed(idx)))
        bad = [i for i in first if first[i] != second[i]]
        if bad:
            ok = False
            print("SELFTEST-FAIL determinism %s: same process, %d of %d runs differ (e.g. index %s: %s vs %s)" % (prop, len(bad), n, bad[0], first[bad[0]], second[bad[0]]))
        # fresh interpreter, different hash seed, two halves in two processes
        env = dict(os.environ)
        for hs, part in (("1", idx[: n // 2]), ("987654", idx[n // 2 :])):
            env["PYTHONHASHSEED"] = hs
            code = "import sys, json; sys.path.insert(0, %r); from simfr import selftest; print(json.dumps(selftest._digests(%r, 'quick', %d, %r)))" % (VERIF, prop, master, part)
            r = subprocess.run([sys.executable, "-B", "-c", code], capture_output=True, text=True, env=env, timeout=1800)
            if r.returncode != 0:
                ok = False
                print("SELFTEST-FAIL determinism %s: fresh interpreter failed: %s" % (prop, r.stderr[-800:]))
                continue
            other = json.loads(r.stdout.strip().splitlines()[-1])
            bad = [i for i in other if other[i] != first[i]]
            if bad:
                ok = False
                print("SELFTEST-FAIL determinism %s: fresh interpreter PYTHONHASHSEED=%s, %d runs differ (e.g. index %s: %s vs %s)" % (prop, hs, len(bad), bad[0], first[bad[0]], other[bad[0]]))
        # two worker counts: the merged evidence must agree on what was explored
        res = []
        for wk in ("1", "16"):
            env = dict(os.environ, VERIF_WORKERS=wk, VERIF_RUNS=str(min(n, 96)), VERIF_SEED=str(master), VERIF_EVIDENCE_DIR=tempfile.mkdtemp(prefix="simfr-ev-"))
            r = subprocess.run([os.path.join(VERIF, "check"), prop, "quick"], capture_output=True, text=True, env=env, timeout=3600)
            try:
                ev = json.load(open(os.path.join(env["VERIF_EVIDENCE_DIR"], "%s.json" % prop)))
                res.append((r.returncode, ev["coverage"]["evaluations"], ev["coverage"]["distinct_nontrivial"], ev["faults_fired"], ev["known_findings_seen"]))
            except Exception as e:  # noqa: BLE001
                res.append(("error", repr(e), r.stdout[-400:], r.stderr[-400:]))
            shutil.rmtree(env["VERIF_EVIDENCE_DIR"], ignore_errors=True)
        if res[0] != res[1]:
            ok = False
            print("SELFTEST-FAIL determinism %s: 1 worker vs 16 workers explored different things: %s vs %s" % (prop, res[0], res[1]))
        print("selftest determinism %s: %d plans x (twice in-process, fresh interpreter under 2 hash seeds), 1 vs 16 workers: %s (%.0fs)" % (prop, n, "ok" if ok else "FAILED", time.time() - t0))
        all_ok &= ok
    return all_ok


def main(argv):
    what = argv[0] if argv else "all"
    props = [a for a in argv[1:] if a in driver.SCENARIOS] or sorted(p for p in driver.SCENARIOS if _available(p))
    ok = True
    if what in ("determinism", "all"):
        n = int(os.environ.get("VERIF_SELFTEST_N", "200"))
        ok &= determinism(props, n=n)
    if what in ("fidelity", "all"):
        from . import fidelity

        ok &= fidelity.run()
    if what in ("sensitivity",):
        from . import sensitivity

        only = next((a.split("=", 1)[1] for a in argv if a.startswith("only=")), None)
        ok &= sensitivity.run(props, only=only)
    if what in ("specificity",):
        from . import sensitivity

        only = next((a.split("=", 1)[1] for a in argv if a.startswith("only=")), None)
        ok &= sensitivity.run_specificity(props, only=only)
    print("selftest %s: %s" % (what, "OK" if ok else "FAILED"))
    return 0 if ok else 2


def _available(prop):
    try:
        driver.load_scenario(prop)
        return True
    except ImportError:
        return False
