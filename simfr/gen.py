"""Generators: descriptor pools, record values, swarm knobs.  All randomness comes from the
``random.Random`` handed in; nothing here touches flow.record (plans are plain JSON)."""

import datetime as _dt
import hashlib
import string as _string

from .plan import enc_value

UTC = _dt.timezone.utc

SCALAR_TYPES = [
    "string",
    "varint",
    "uint32",
    "uint16",
    "boolean",
    "float",
    "bytes",
    "datetime",
    "path",
    "net.ipaddress",
    "digest",
    "filesize",
    "uri",
    "wstring",
]
LIST_TYPES = ["string[]", "varint[]", "stringlist", "uint32[]", "bytes[]"]

FIELD_NAMES = [
    "a", "b", "c", "d", "e", "s", "n", "ts", "name", "value", "data", "path", "ip", "count", "flag", "lista",
    "listb", "x", "y", "z", "host", "user", "size", "mtime", "Key", "from_", "class_", "hash", "tags", "f1", "f2",
]  # fmt: skip
RECORD_NAMES = ["test/a", "test/b", "t/x", "filesystem/entry", "net/conn", "a", "b/c/d", "Group", "select", "x/y"]

_LEN_CLASSES = [0, 1, 2, 5, 30, 31, 32, 33, 254, 255, 256, 257, 1000, 8180, 8192, 8200, 65534, 65535, 65536, 70000]


def pick_len(rng, big=True):
    r = rng.random()
    if r < 0.55:
        return rng.randrange(0, 12)
    if r < 0.85 or not big:
        return rng.choice(_LEN_CLASSES[:12])
    if r < 0.97:
        return rng.choice(_LEN_CLASSES[:16])
    return rng.choice(_LEN_CLASSES)


def gen_text(rng, n, ascii_only=False):
    if n == 0:
        return ""
    r = rng.random()
    if ascii_only or r < 0.6:
        alphabet = _string.ascii_letters + _string.digits + " _-./:,;=\"'\\"
    elif r < 0.8:
        alphabet = "äöüßéèñøλπЖшあ漢字"
    elif r < 0.9:
        alphabet = "a\U0001F600\U00010000b\n\t\r"
    else:
        alphabet = _string.ascii_letters + "\n\r\t\x00\x7f"
    return "".join(rng.choice(alphabet) for _ in range(n))


def gen_int(rng):
    r = rng.random()
    if r < 0.4:
        return rng.randrange(-5, 300)
    b = rng.choice([7, 8, 15, 16, 31, 32, 53, 63, 64, 65, 127, 128])
    base = 1 << b
    return rng.choice([-1, 1]) * (base + rng.choice([-2, -1, 0, 1, 2]))


def gen_datetime(rng, utc_only=False, after_1970=False):
    year = rng.choice([1970, 1999, 2000, 2024, 2030, 2038, 2100]) if after_1970 else rng.choice([1601, 1900, 1969, 1970, 2000, 2024, 2038, 2262, 9999])
    d = _dt.datetime(
        year,
        rng.randrange(1, 13),
        rng.randrange(1, 29),
        rng.randrange(0, 24),
        rng.randrange(0, 60),
        rng.randrange(0, 60),
        rng.choice([0, 1, 999999, rng.randrange(0, 1000000)]),
    )
    if after_1970 and year == 1970:
        d = d.replace(month=max(d.month, 2))
    if utc_only or rng.random() < 0.6 or year in (1601, 9999):
        return d.replace(tzinfo=UTC)
    off = rng.choice([60, -60, 120, 330, -480, 765, -720, 345])
    return d.replace(tzinfo=_dt.timezone(_dt.timedelta(minutes=off)))


def gen_value(rng, typ, big=True, none_ok=True):
    """-> tagged JSON value for a field of type ``typ`` (never a record type)."""
    if typ.endswith("[]"):
        inner = typ[:-2]
        n = rng.choice([0, 0, 1, 2, 3, 5])
        return {"$l": [gen_value(rng, inner, big=False, none_ok=False) for _ in range(n)]}
    if none_ok and rng.random() < 0.12:
        return None
    if typ in ("string", "wstring"):
        return gen_text(rng, pick_len(rng, big))
    if typ == "stringlist":
        return {"$l": [gen_text(rng, rng.randrange(0, 6)) for _ in range(rng.choice([0, 1, 2, 4]))]}
    if typ in ("varint", "filesize"):
        v = gen_int(rng)
        return enc_value(abs(v) if typ == "filesize" else v)
    if typ == "uint32":
        return rng.choice([0, 1, 255, 65535, 65536, 2**31, 2**32 - 1, rng.randrange(0, 2**32)])
    if typ == "uint16":
        return rng.choice([0, 1, 255, 256, 65535, rng.randrange(0, 2**16)])
    if typ == "boolean":
        return rng.random() < 0.5
    if typ == "float":
        return enc_value(rng.choice([0.0, -0.0, 1.5, -2.25, 1e308, 5e-324, 3.141592653589793, float(rng.randrange(-1000, 1000)) / 7]))
    if typ == "bytes":
        n = pick_len(rng, big)
        return enc_value(bytes(rng.getrandbits(8) for _ in range(min(n, 300))) * (1 if n <= 300 else (n // 300 + 1)))
    if typ == "datetime":
        return enc_value(gen_datetime(rng))
    if typ == "path":
        if rng.random() < 0.5:
            return {"$path": ["posix", rng.choice(["/", "/etc/passwd", "/tmp/a b/c", "relative/x", "/üni/code"])]}
        return {"$path": ["windows", rng.choice(["C:\\Windows\\System32", "c:\\a b\\c.txt", "\\\\srv\\share\\f", "rel\\x"])]}
    if typ == "net.ipaddress":
        return rng.choice(["1.2.3.4", "0.0.0.0", "255.255.255.255", "10.0.0.1", "2001:db8::1", "fe80::1:2:3:4", "ff02::1:ff00:0"])
    if typ == "digest":
        h = hashlib.sha256(str(rng.random()).encode()).hexdigest()
        r = rng.random()
        if r < 0.3:
            return {"$l": [hashlib.md5(h.encode()).hexdigest(), hashlib.sha1(h.encode()).hexdigest(), h]}
        if r < 0.6:
            return {"$l": [hashlib.md5(h.encode()).hexdigest(), None, None]}
        return {"$l": [None, None, h]}
    if typ == "uri":
        return rng.choice(["http://example.com/a?b=c#d", "file:///etc/passwd", "x", ""])
    raise ValueError(typ)


def gen_fields(rng, types, lo=1, hi=5, names=None):
    names = list(names or FIELD_NAMES)
    rng.shuffle(names)
    n = rng.randrange(lo, hi + 1)
    return [[rng.choice(types), names[i]] for i in range(n)]


def gen_record_values(rng, fields, big=True, none_ok=True, nested=None):
    """Values for a flat field list; ``nested(typ)`` supplies values for record / record[]."""
    out = []
    for typ, _ in fields:
        if typ == "record":
            out.append(nested(typ))
        elif typ == "record[]":
            out.append({"$l": nested(typ)})
        else:
            out.append(gen_value(rng, typ, big=big, none_ok=none_ok))
    return out


# -- identifier coincidences --------------------------------------------------------------------
def desc_hash(name, fields):
    data = name + "".join("%s%s" % (n, t) for t, n in fields)
    return int.from_bytes(hashlib.sha256(data.encode()).digest()[:4], "big")


# Genuine 32-bit prefix collision, found by brute force during reconnaissance and re-verified at
# start-up (see find_hash_collision).  name "c/x", one string field.
KNOWN_COLLISION = ("c/x", "f51756", "f72993")


def hash_collision_pair():
    name, f1, f2 = KNOWN_COLLISION
    a = [["string", f1]]
    b = [["string", f2]]
    if desc_hash(name, a) == desc_hash(name, b):
        return name, a, b
    return find_hash_collision()


def find_hash_collision(name="c/x", limit=400000):
    seen = {}
    for i in range(limit):
        f = "f%d" % i
        h = desc_hash(name, [["string", f]])
        if h in seen:
            return name, [["string", seen[h]]], [["string", f]]
        seen[h] = f
    return None


def concat_ambiguity_pairs():
    """Descriptor pairs (same record name) whose hash *input* is the same string - the hash is taken
    over name + field-name + type-name concatenated without separators - hence equal identifiers."""
    return [
        # "a"+"stringlist" + "b"+"string"  ==  "a"+"string" + "listb"+"string"
        ("t/amb", [["stringlist", "a"], ["string", "b"]], [["string", "a"], ["string", "listb"]]),
        # "a"+"uint32" + "b"+"string"  ==  "auint32b"+"string"
        ("t/amc", [["uint32", "a"], ["string", "b"]], [["string", "auint32b"]]),
    ]
