"""Sensitivity self-test: every realistic property-breaking edit we know of must be caught.

Sources: /verif/mutants/<Cxx>-<name>.patch (written while building the checks) and
/verif/seeded/<id>/patch.diff with meta.json (written by independent sub-agents).  Each patch is
applied to a scratch copy of /repo outside /repo and /verif, the property's quick check is run with
VERIF_REPO pointing at the copy, and the check must exit 1.  The copy is removed afterwards.
"""

import glob
import json
import os
import shutil
import subprocess
import sys
import tempfile
import time

from . import driver

VERIF = driver.VERIF


def _scratch_root():
    for d in ("/dev/shm", tempfile.gettempdir()):
        if os.path.isdir(d) and os.access(d, os.W_OK):
            return d
    return tempfile.gettempdir()


def collect(props):
    items = []
    for p in sorted(glob.glob(os.path.join(VERIF, "mutants", "*.patch"))):
        prop = os.path.basename(p).split("-", 1)[0]
        if prop in props:
            items.append((prop, os.path.basename(p)[:-6], p))
    for meta in sorted(glob.glob(os.path.join(VERIF, "seeded", "*", "meta.json"))):
        m = json.load(open(meta))
        prop = m.get("property")
        patch = os.path.join(os.path.dirname(meta), "patch.diff")
        if prop in props and os.path.exists(patch):
            items.append((prop, "seeded/" + os.path.basename(os.path.dirname(meta)) + ("~out-of-reach" if m.get("out_of_reach") else "~neutralised-by-fix" if m.get("neutralised_by") else ""), patch))
    return items


def run_one(prop, name, patch, repo="/repo", runs=None, tier="quick"):
    root = tempfile.mkdtemp(prefix="simfr-mut-", dir=_scratch_root())
    dst = os.path.join(root, "repo")
    t0 = time.time()
    try:
        shutil.copytree(repo, dst, ignore=shutil.ignore_patterns(".git", "__pycache__", "*.pyc", ".pytest_cache"))
        r = subprocess.run(["patch", "-p1", "-s", "-d", dst, "-i", patch], capture_output=True, text=True)
        if r.returncode != 0:
            return {"prop": prop, "name": name, "status": "patch-failed", "detail": (r.stdout + r.stderr)[-300:]}
        env = dict(os.environ, VERIF_REPO=dst, VERIF_EVIDENCE_DIR=os.path.join(root, "ev"), VERIF_MINIMISE_S="5", VERIF_REPLAY_DIR=os.path.join(root, "replays"))
        if runs:
            env["VERIF_RUNS"] = str(runs)
        r = subprocess.run([os.path.join(VERIF, "check"), prop, tier], capture_output=True, text=True, env=env, timeout=3600)
        invs = sorted(set(l.split()[1] for l in r.stdout.splitlines() if l.startswith("violation ")))
        status = {0: "MISSED", 1: "caught", 2: "harness-error"}.get(r.returncode, "exit-%d" % r.returncode)
        return {"prop": prop, "name": name, "status": status, "invariants": invs, "wall_s": round(time.time() - t0, 1), "tail": r.stdout[-600:] if status != "caught" else ""}
    finally:
        shutil.rmtree(root, ignore_errors=True)


def run(props, only=None):
    items = collect(props)
    if only and only.startswith("every:"):
        # regression sample: every N-th item (offset K) of the whole list, "every:N:K"
        _, n_, k_ = only.split(":")
        items = [it for j, it in enumerate(items) if j % int(n_) == int(k_)]
    elif only:
        items = [i for i in items if only in i[1]]
    ok = True
    rows = []
    for prop, name, patch in items:
        res = run_one(prop, name, patch)
        rows.append(res)
        print("sensitivity %-4s %-48s %-14s %s %ss" % (prop, name, res["status"], ",".join(res.get("invariants", [])), res.get("wall_s", "")))
        if res["status"] != "caught" and not name.endswith(("~out-of-reach", "~neutralised-by-fix")):
            ok = False
            print("    " + (res.get("detail") or res.get("tail") or "").replace("\n", "\n    "))
    out = os.path.join(VERIF, "evidence", "sensitivity.json")
    if only:
        # partial run: merge into the existing report
        try:
            old = json.load(open(out))["rows"]
        except Exception:  # noqa: BLE001
            old = []
        names = set((r["prop"], r["name"]) for r in rows)
        rows_all = [r for r in old if (r["prop"], r["name"]) not in names] + rows
    else:
        rows_all = rows
    try:
        os.makedirs(os.path.dirname(out), exist_ok=True)
        with open(out, "w") as f:
            rows_all = sorted(rows_all, key=lambda r: (r["prop"], r["name"]))
            json.dump({"rows": rows_all, "caught": sum(r["status"] == "caught" for r in rows_all), "total": len(rows_all)}, f, indent=1)
    except OSError:
        pass
    print("sensitivity: %d of %d caught" % (sum(r["status"] == "caught" for r in rows), len(rows)))
    return ok


# -- specificity: property-preserving changes must not raise an alarm -----------------------------
def collect_benign(only=None):
    items = []
    for meta in sorted(glob.glob(os.path.join(VERIF, "benign", "*", "meta.json"))):
        d = os.path.dirname(meta)
        name = os.path.basename(d)
        if only and only not in name:
            continue
        items.append((json.load(open(meta)).get("property"), name, os.path.join(d, "patch.diff")))
    return items


# which checks drive which source files (a change elsewhere cannot influence a check, so running it proves nothing)
RELEVANT = {
    "flow/record/stream.py": ["C03", "C04", "C11", "C16", "C17"],
    "flow/record/base.py": ["C03", "C04", "C11", "C16", "C17", "C18"],
    "flow/record/packer.py": ["C03", "C04", "C16", "C17"],
    "flow/record/jsonpacker.py": ["C03", "C16", "C17"],
    "flow/record/exceptions.py": ["C03", "C04", "C11", "C16"],
    "flow/record/utils.py": ["C04", "C11", "C16", "C17"],
    "flow/record/adapter/sqlite.py": ["C18", "C17"],
    "flow/record/adapter/avro.py": ["C11", "C16", "C17"],
    "flow/record/adapter/split.py": ["C16", "C17"],
    "flow/record/adapter/stream.py": ["C04", "C11", "C16", "C17"],
    "flow/record/adapter/jsonfile.py": ["C03", "C16", "C17"],
    "flow/record/tools/rdump.py": ["C16"],
    "flow/record/selector.py": ["C16"],
    "flow/record/selector_ast.py": ["C16"],
}


def relevant_props(patch, props):
    files = [l[6:].strip() for l in open(patch) if l.startswith("+++ b/")]
    rel = set()
    for f in files:
        rel |= set(RELEVANT.get(f, props))
    return [p for p in props if p in rel]


def run_benign_one(name, patch, props, repo="/repo"):
    """Apply one property-preserving patch to a scratch copy and run the quick check of every property in
    ``props`` against it.  -> rows [{prop, name, status}] where status is 'silent' (exit 0), 'ALARM' (exit 1)
    or 'harness-error'."""
    root = tempfile.mkdtemp(prefix="simfr-ben-", dir=_scratch_root())
    dst = os.path.join(root, "repo")
    rows = []
    try:
        shutil.copytree(repo, dst, ignore=shutil.ignore_patterns(".git", "__pycache__", "*.pyc", ".pytest_cache"))
        r = subprocess.run(["patch", "-p1", "-s", "-d", dst, "-i", patch], capture_output=True, text=True)
        if r.returncode != 0:
            return [{"prop": "-", "name": name, "status": "patch-failed", "detail": (r.stdout + r.stderr)[-300:]}]
        for prop in props:
            t0 = time.time()
            env = dict(os.environ, VERIF_REPO=dst, VERIF_EVIDENCE_DIR=os.path.join(root, "ev"), VERIF_MINIMISE_S="5", VERIF_REPLAY_DIR=os.path.join(root, "replays"))
            env.setdefault("VERIF_BUDGET_S", "60")  # over-fitting shows at once; a wall budget keeps 100+ pairs affordable
            r = subprocess.run([os.path.join(VERIF, "check"), prop, "quick"], capture_output=True, text=True, env=env, timeout=3600)
            invs = sorted(set(l.split()[1] for l in r.stdout.splitlines() if l.startswith("violation ")))
            status = {0: "silent", 1: "ALARM", 2: "harness-error"}.get(r.returncode, "exit-%d" % r.returncode)
            rows.append({"prop": prop, "name": name, "status": status, "invariants": invs, "wall_s": round(time.time() - t0, 1), "tail": r.stdout[-1500:] if status != "silent" else ""})
    finally:
        shutil.rmtree(root, ignore_errors=True)
    return rows


def run_specificity(props, only=None):
    items = collect_benign(only)
    ok = True
    rows = []
    for _prop, name, patch in items:
        for res in run_benign_one(name, patch, props if os.environ.get("VERIF_SPECIFICITY_ALL") else relevant_props(patch, props)):
            rows.append(res)
            print("specificity %-10s under %-4s %-14s %s %ss" % (name, res["prop"], res["status"], ",".join(res.get("invariants", [])), res.get("wall_s", "")))
            sys.stdout.flush()
            if res["status"] != "silent":
                ok = False
                print("    " + (res.get("detail") or res.get("tail") or "").replace("\n", "\n    "))
    out = os.path.join(VERIF, "evidence", "specificity.json")
    try:
        old = json.load(open(out))["rows"] if only or len(props) < 6 else []
    except Exception:  # noqa: BLE001
        old = []
    names = set((r["prop"], r["name"]) for r in rows)
    rows_all = sorted([r for r in old if (r["prop"], r["name"]) not in names] + rows, key=lambda r: (r["name"], r["prop"]))
    try:
        with open(out, "w") as f:
            json.dump({"rows": [{k: v for k, v in r.items() if k != "tail"} for r in rows_all], "silent": sum(r["status"] == "silent" for r in rows_all), "total": len(rows_all)}, f, indent=1)
    except OSError:
        pass
    print("specificity: %d of %d (change, check) pairs silent" % (sum(r["status"] == "silent" for r in rows), len(rows)))
    return ok
