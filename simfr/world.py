"""World: the simulated environment one run executes in.

A World owns the simulated clock, the simulated file system, the event log with its running
SHA-256 digest, the fault / reach-probe counters and the seam patching.  Nothing in here draws
random numbers or reads a real clock.
"""

import builtins
import bz2
import collections
import datetime as _dt
import gc
import gzip
import hashlib
import io
import logging
import os as _os
import sys
import time as _time
import types
import warnings

from . import simfs as _simfs
from .simfs import SimFS, SimRaw, HandlePlan, is_sim_path

UTC = _dt.timezone.utc
EPOCH0 = _dt.datetime(2030, 1, 1, 0, 0, 0, tzinfo=UTC)

_REAL_OPEN = builtins.open
_REAL_IO_OPEN = io.open
_REAL_BZ2_OPEN = bz2._builtin_open
_REAL_OS = _os
_REAL_TIME = _time
_REAL_DATETIME = _dt

CURRENT = None  # the World whose seams are active (at most one)

_flow_loaded = False
fr = base = stream_mod = utils_mod = None


def load_flow():
    """Import flow.record from VERIF_REPO (default /repo) and install the permanent clock hook."""
    global _flow_loaded, fr, base, stream_mod, utils_mod
    if _flow_loaded:
        return fr
    repo = _os.environ.get("VERIF_REPO", "/repo")
    repo = _os.path.realpath(repo)
    if repo in sys.path:
        sys.path.remove(repo)
    sys.path.insert(0, repo)
    _os.environ.setdefault("FLOW_RECORD_VERIF", "1")
    warnings.simplefilter("ignore")
    import flow.record as _fr
    import flow.record.base as _base
    import flow.record.stream as _stream
    import flow.record.utils as _utils

    got = _os.path.realpath(_fr.__file__)
    if not got.startswith(repo + "/"):
        raise RuntimeError("flow.record imported from %s, expected under %s" % (got, repo))
    fr, base, stream_mod, utils_mod = _fr, _base, _stream, _utils

    # Permanent clock seam: every record class generated from now on stamps _generated through
    # this hook, which consults the active World (or the real clock when none is active).
    real_utcnow = _base._utcnow

    def _sim_utcnow():
        w = CURRENT
        if w is None:
            return real_utcnow()
        return w.clock.now()

    _base._utcnow = _sim_utcnow
    _base._generate_record_class.cache_clear()
    _base.TimestampRecord = _base.RecordDescriptor(
        "record/timestamp", [("datetime", "ts"), ("string", "ts_description")]
    )
    # root logger: rdump calls logging.basicConfig, which is a no-op once a handler exists
    root = logging.getLogger()
    if not root.handlers:
        root.addHandler(logging.NullHandler())
    logging.getLogger("flow.record").propagate = True
    _flow_loaded = True
    return fr


class SimClock:
    def __init__(self, start=EPOCH0):
        self._now = start
        self.covered_us = 0

    def now(self, tz=UTC):
        if tz is None:
            return self._now.replace(tzinfo=None)
        return self._now.astimezone(tz)

    def advance_us(self, us):
        self._now = self._now + _dt.timedelta(microseconds=us)
        self.covered_us += abs(us)

    def timestamp(self):
        return self._now.timestamp()


class _SimDateTime(_dt.datetime):
    """datetime.datetime whose now()/utcnow() read the active simulated clock."""

    @classmethod
    def now(cls, tz=None):
        w = CURRENT
        if w is None:
            return _dt.datetime.now(tz)
        n = w.clock.now(tz)
        return n

    @classmethod
    def utcnow(cls):
        w = CURRENT
        if w is None:
            return _dt.datetime.utcnow()
        return w.clock.now(None)


class _Proxy:
    """Module-like proxy: selected names overridden, everything else delegated."""

    def __init__(self, target, overrides):
        object.__setattr__(self, "_t", target)
        object.__setattr__(self, "_o", overrides)

    def __getattr__(self, name):
        o = object.__getattribute__(self, "_o")
        if name in o:
            return o[name]
        return getattr(object.__getattribute__(self, "_t"), name)


def _map(path):
    """Relative paths live in the simulated working directory when the World has one."""
    w = CURRENT
    if w is not None and isinstance(path, str) and path.startswith("//") and path.lstrip("/").startswith("simfs/"):
        return "/" + path.lstrip("/")  # several leading slashes name the root, as on Linux
    if w is not None and w.sim_cwd:
        if isinstance(path, _os.PathLike):
            path = _os.fspath(path)
        if isinstance(path, str) and path and not path.startswith("/") and "://" not in path:
            return w.sim_cwd + "/" + path
    return path


def _route(simfn, realfn):
    def f(path, *a, **k):
        w = CURRENT
        if k.get("dir_fd") is not None:
            return realfn(path, *a, **k)  # relative to a real directory descriptor: not ours
        path = _map(path)
        if w is not None and is_sim_path(path):
            return getattr(w.fs, simfn)(path, *a, **k)
        return realfn(path, *a, **k)

    f.__name__ = simfn
    return f


def _link(src, dst, *a, **k):
    w = CURRENT
    src, dst = _map(src), _map(dst)
    if w is not None and is_sim_path(src):
        return w.fs.link(src, dst)
    return _os.link(src, dst, *a, **k)


def _rename(src, dst, *a, **k):
    w = CURRENT
    src, dst = _map(src), _map(dst)
    if w is not None and is_sim_path(src):
        return w.fs.rename(src, dst)
    return _os.rename(src, dst, *a, **k)


def _replace(src, dst, *a, **k):
    w = CURRENT
    src, dst = _map(src), _map(dst)
    if w is not None and is_sim_path(src):
        return w.fs.rename(src, dst)
    return _os.replace(src, dst, *a, **k)


def _fstat(fd, *a, **k):
    w = CURRENT
    if w is not None and isinstance(fd, int) and fd in w.fs.fds:
        return w.fs.fstat(fd)
    return _os.fstat(fd, *a, **k)


def _abspath(path):
    return _os.path.abspath(_map(path)) if isinstance(path, str) else _os.path.abspath(path)


def _getcwd():
    w = CURRENT
    if w is not None and w.sim_cwd:
        return w.sim_cwd
    return _os.getcwd()


_PATH_PROXY = _Proxy(
    _os.path,
    {
        "exists": _route("exists", _os.path.exists),
        "isdir": _route("isdir", _os.path.isdir),
        "isfile": _route("isfile", _os.path.isfile),
        "realpath": _route("realpath", _os.path.realpath),
        "getsize": _route("getsize", _os.path.getsize),
        "lexists": _route("exists", _os.path.lexists),
        "abspath": _abspath,
    },
)
_OS_PROXY = _Proxy(
    _os,
    {
        "path": _PATH_PROXY,
        "rename": _rename,
        "replace": _replace,
        "makedirs": _route("makedirs", _os.makedirs),
        "mkdir": _route("mkdir", _os.mkdir),
        "remove": _route("remove", _os.remove),
        "link": _link,
        "unlink": _route("unlink", _os.unlink),
        "listdir": _route("listdir", _os.listdir),
        "scandir": _route("scandir", _os.scandir),
        "stat": _route("stat", _os.stat),
        "lstat": _route("stat", _os.lstat),
        "getcwd": _getcwd,
        "fstat": _fstat,
    },
)
_DT_PROXY = _Proxy(_dt, {"datetime": _SimDateTime})


def _sim_time():
    w = CURRENT
    if w is None:
        return _time.time()
    return w.clock.timestamp()


_TIME_PROXY = _Proxy(_time, {"time": _sim_time})


def _sim_open(file, mode="r", buffering=-1, encoding=None, errors=None, newline=None, closefd=True, opener=None):
    w = CURRENT
    file = _map(file)
    if w is not None and is_sim_path(file):
        return w.fs.open(file, mode, buffering, encoding, errors, newline, closefd, opener)
    return _REAL_OPEN(file, mode, buffering, encoding, errors, newline, closefd, opener)


class World:
    def __init__(self, keep_log=False):
        load_flow()
        self.clock = SimClock()
        self.stats = collections.Counter()  # fault kinds fired + reach probes
        self.states = set()  # abstract states reached (short strings)
        self.raw_writes = 0
        self._h = hashlib.sha256()
        self._seq = 0
        self.trace = [] if keep_log else None
        self.fs = SimFS(self)
        self.keep = []  # objects that must stay referenced for the whole run
        self.sim_cwd = "/simfs/cwd"  # relative paths resolve into this SimFS directory, never into the real cwd
        self.fs.dirs.add("/simfs/cwd")
        self._saved = None
        self._gc_was = None

    # -- log -------------------------------------------------------------------------------
    def log(self, *parts):
        line = "%d %s" % (self._seq, " ".join(str(p) for p in parts))
        self._seq += 1
        self._h.update(line.encode("utf-8", "surrogatepass"))
        self._h.update(b"\n")
        if self.trace is not None and len(self.trace) < 400:
            self.trace.append(line)

    def digest(self):
        return "sha256:" + self._h.hexdigest()

    def fault(self, kind):
        self.stats["fault:" + kind] += 1

    def probe(self, name):
        self.stats["probe:" + name] += 1

    def state(self, *parts):
        self.states.add("|".join(str(p) for p in parts))

    # -- seams -----------------------------------------------------------------------------
    def __enter__(self):
        global CURRENT
        if CURRENT is not None:
            raise RuntimeError("nested World")
        self._gc_was = gc.isenabled()
        gc.disable()
        import flow.record.adapter.csvfile  # noqa: F401  (uses builtins.open)

        self._saved = {
            "open": builtins.open,
            "io_open": io.open,
            "bz2_open": bz2._builtin_open,
            "stream_os": stream_mod.os,
            "base_os": base.os,
            "utils_os": utils_mod.os,
            "stream_dt": stream_mod.datetime,
            "gzip_time": gzip.time,
            "stdin": sys.stdin,
            "stdout": sys.stdout,
            "stderr": sys.stderr,
        }
        try:
            import fastavro._write as _fw

            self._saved["avro_urandom"] = _fw.urandom
            _fw.urandom = self._urandom  # Avro sync markers: randomness behind a seam
        except Exception:  # noqa: BLE001
            pass
        builtins.open = _sim_open
        io.open = _sim_open
        bz2._builtin_open = _sim_open
        stream_mod.os = _OS_PROXY
        base.os = _OS_PROXY
        utils_mod.os = _OS_PROXY
        # any other flow.record module that (now or after an edit) imports os, and pathlib, see the simulated tree too
        self._os_rebound = []
        import glob as _glob  # noqa: F401  (so that it is in sys.modules and gets the simulated os as well)
        import pathlib as _pathlib

        for name, mod in list(sys.modules.items()):
            if (name.startswith("flow.record") or name in ("pathlib", "glob")) and mod is not None and getattr(mod, "os", None) is _REAL_OS:
                try:
                    mod.os = _OS_PROXY
                    self._os_rebound.append(mod)
                except Exception:  # noqa: BLE001
                    pass
        stream_mod.datetime = _DT_PROXY
        gzip.time = _TIME_PROXY
        # caches that hold descriptors / classes: a run must not depend on earlier runs
        base._generate_record_class.cache_clear()
        base.merge_record_descriptors.cache_clear()
        base.RecordDescriptor.calc_descriptor_hash.cache_clear()
        try:
            from flow.record.adapter import line as _line

            _line.field_types_for_record_descriptor.cache_clear()
        except Exception:
            pass
        try:
            from flow.record.adapter import sqlite as _sq

            _sq.prepare_insert_sql.cache_clear()
        except Exception:
            pass
        CURRENT = self
        return self

    def __exit__(self, *exc):
        global CURRENT
        # the "process" ends: whatever finalisers do later must not reach the simulated disk
        self.fs.freeze_all()
        s = self._saved
        builtins.open = s["open"]
        io.open = s["io_open"]
        bz2._builtin_open = s["bz2_open"]
        stream_mod.os = s["stream_os"]
        base.os = s["base_os"]
        utils_mod.os = s["utils_os"]
        for mod in getattr(self, "_os_rebound", []):
            mod.os = _REAL_OS
        self._os_rebound = []
        stream_mod.datetime = s["stream_dt"]
        gzip.time = s["gzip_time"]
        sys.stdin = s["stdin"]
        sys.stdout = s["stdout"]
        sys.stderr = s["stderr"]
        if "avro_urandom" in s:
            import fastavro._write as _fw

            _fw.urandom = s["avro_urandom"]
        CURRENT = None
        self.keep.clear()
        self.fs.wrappers.clear()
        if self._gc_was:
            gc.enable()
        return False

    def _urandom(self, n):
        """Deterministic stand-in for os.urandom where a dependency draws random bytes (Avro sync marker)."""
        self._rand_ctr = getattr(self, "_rand_ctr", 0) + 1
        out = b""
        k = 0
        while len(out) < n:
            out += hashlib.sha256(b"simfr-urandom/%d/%d" % (self._rand_ctr, k)).digest()
            k += 1
        return out[:n]

    # -- stdio -----------------------------------------------------------------------------
    def set_stdin(self, data, plan=None):
        ino = self.fs.new_inode(data)
        raw = SimRaw(self, ino, "rb", "<stdin>", plan, "stdin")
        raw.seekable_flag = False
        buf = io.BufferedReader(raw, self.fs.read_buffer_size)
        text = io.TextIOWrapper(buf, encoding="utf-8", errors="surrogateescape")
        self.keep += [raw, buf, text]
        self.fs.handles.append(raw)
        sys.stdin = text
        return raw

    def set_stdin_nopeek(self, data, plan=None):
        """sys.stdin replaced by an object whose .buffer is a bare raw stream (no peek), as embedding code does."""
        ino = self.fs.new_inode(data)
        raw = SimRaw(self, ino, "rb", "<stdin>", plan, "stdin")
        raw.seekable_flag = False

        class _Stdin:
            buffer = raw
            encoding = "utf-8"

            def read(self, *a):
                return raw.read(*a).decode("utf-8", "surrogateescape")

            def isatty(self):
                return False

        holder = _Stdin()
        self.keep += [raw, holder]
        self.fs.handles.append(raw)
        sys.stdin = holder
        return raw

    def set_stdout(self):
        ino = self.fs.new_inode()
        raw = SimRaw(self, ino, "wb", "<stdout>", None, "stdout")
        raw.seekable_flag = False
        buf = io.BufferedWriter(raw, self.fs.buffer_size)
        text = io.TextIOWrapper(buf, encoding="utf-8", errors="surrogateescape", write_through=False)
        self.keep += [raw, buf, text]
        self.fs.handles.append(raw)
        sys.stdout = text
        return ino

    def release_readers(self):
        """Drop finished read-side objects (safe point inside long enumerations)."""
        self.keep.clear()
        self.fs.handles = [h for h in self.fs.handles if h._w]
        self.fs.wrappers = [x for x in self.fs.wrappers if getattr(x, "writable", lambda: False)() and not x.closed]

    def new_raw(self, mode, data=b"", plan=None, label="obj", seekable=True):
        """A free-standing raw device for fileobj= APIs."""
        ino = self.fs.new_inode(data)
        raw = SimRaw(self, ino, mode, "<%s>" % label, plan, label)
        raw.seekable_flag = seekable
        self.fs.handles.append(raw)
        self.keep.append(raw)
        return raw
