"""In-memory file system and raw byte devices owned by the simulator.

Everything the library does to a path under ``/simfs/`` ends up here.  The *real*
``io.BufferedWriter`` / ``io.BufferedReader`` / ``io.TextIOWrapper`` are stacked on top of
:class:`SimRaw` exactly the way ``open()`` would, so the library's buffering behaviour is real and
only the byte device is simulated.

Faults are attached to a raw handle through a :class:`HandlePlan`; a fault is *counted* in
``world.stats`` only when it actually fires.
"""

import errno as _errno
import io
import os as _os
import posixpath

PREFIX = "/simfs/"
ROOT = "/simfs"


def is_sim_path(p):
    if isinstance(p, _os.PathLike):
        p = _os.fspath(p)
    if isinstance(p, bytes):
        return False
    return isinstance(p, str) and (p == ROOT or p.startswith(PREFIX))


class Inode:
    __slots__ = ("data", "ino", "fifo")

    def __init__(self, ino, data=b"", fifo=False):
        self.data = bytearray(data)
        self.ino = ino
        self.fifo = fifo  # a named pipe / /dev/fd entry: exists, can be opened and read once, is not a regular file


EOF_READ_LIMIT = 5000


class Livelock(BaseException):
    """The code under test keeps reading a device that has reported end-of-file thousands of times in a row:
    the deterministic form of "does not terminate".  Not an Exception, so that no library handler eats it."""


class HandlePlan:
    """Per-handle behaviour decided by the plan.

    write_faults   {call_index: {"kind": "error", "errno": "ENOSPC", "torn": m}
                                | {"kind": "short", "accept": m}}
    delivery       list of chunk sizes for successive ``readinto`` calls; when exhausted the
                   ``tail`` policy applies ("whole" -> as much as asked, int n -> n bytes per call)
    read_error_at  index of the ``readinto`` call that raises ``OSError(EIO)`` (or None)
    """

    __slots__ = ("write_faults", "delivery", "tail", "read_error_at")

    def __init__(self, write_faults=None, delivery=None, tail="whole", read_error_at=None):
        self.write_faults = {int(k): v for k, v in (write_faults or {}).items()}
        self.delivery = list(delivery) if delivery is not None else None
        self.tail = tail
        self.read_error_at = read_error_at

    @classmethod
    def from_json(cls, d):
        if d is None:
            return None
        return cls(
            write_faults=d.get("write_faults"),
            delivery=d.get("delivery"),
            tail=d.get("tail", "whole"),
            read_error_at=d.get("read_error_at"),
        )


class SimRaw(io.RawIOBase):
    """A raw byte device on an inode (or a free-standing one for fileobj APIs)."""

    def __init__(self, world, inode, mode, name, plan=None, label=None):
        super().__init__()
        self._world = world
        self._inode = inode
        self._r = "r" in mode or "+" in mode
        self._w = any(c in mode for c in "wax+")
        self._append = "a" in mode
        self._pos = len(inode.data) if self._append else 0
        self.name = name
        self.mode = "rb" if not self._w else ("wb" if "w" in mode else mode.replace("t", ""))
        self.plan = plan or HandlePlan()
        self.label = label or name
        self.frozen = False
        self._fd = world.fs.alloc_fd(inode) if getattr(world, "fs", None) is not None else -1
        self.n_write = 0  # raw write calls so far
        self.n_read = 0  # raw readinto calls so far
        self.writes = []  # (offset, length persisted, length asked) of every raw write call
        self.seekable_flag = True

    # -- capability ------------------------------------------------------------------------
    def readable(self):
        return self._r

    def writable(self):
        return self._w

    def seekable(self):
        return self.seekable_flag

    def isatty(self):
        return False

    def fileno(self):
        # a simulated descriptor number: only the simulator's own os.fstat proxy knows it
        if self._fd < 0:
            raise io.UnsupportedOperation("fileno")
        return self._fd

    # -- positioning -----------------------------------------------------------------------
    def seek(self, off, whence=0):
        if not self.seekable_flag:
            raise io.UnsupportedOperation("underlying stream is not seekable")
        if whence == 0:
            pos = off
        elif whence == 1:
            pos = self._pos + off
        else:
            pos = len(self._inode.data) + off
        if pos < 0:
            raise OSError(_errno.EINVAL, "Invalid argument")
        self._pos = pos
        return pos

    def tell(self):
        if not self.seekable_flag:
            raise io.UnsupportedOperation("underlying stream is not seekable")
        return self._pos

    def truncate(self, size=None):
        if size is None:
            size = self._pos
        del self._inode.data[size:]
        return size

    # -- reading ---------------------------------------------------------------------------
    def readinto(self, b):
        if self.closed:
            raise ValueError("I/O operation on closed file")
        if not self._r:
            raise io.UnsupportedOperation("not readable")
        idx = self.n_read
        self.n_read += 1
        plan = self.plan
        w = self._world
        if plan.read_error_at is not None and idx == plan.read_error_at:
            w.fault("raw_read_error")
            w.log("raw", self.label, "readinto#%d" % idx, "-> OSError(EIO)")
            raise OSError(_errno.EIO, "Input/output error (injected)")
        want = len(b)
        avail = len(self._inode.data) - self._pos
        if avail <= 0 or want == 0:
            if want:
                self._eof_reads = getattr(self, "_eof_reads", 0) + 1
                if self._eof_reads > EOF_READ_LIMIT:
                    raise Livelock("%s: %d consecutive reads at end-of-file" % (self.label, self._eof_reads))
            return 0
        self._eof_reads = 0
        if plan.delivery is not None:
            if idx < len(plan.delivery):
                lim = plan.delivery[idx]
            else:
                lim = want if plan.tail == "whole" else int(plan.tail)
            lim = max(1, lim)
        else:
            lim = want
        n = min(want, avail, lim)
        if n < min(want, avail):
            w.fault("raw_read_short")
        data = self._inode.data[self._pos : self._pos + n]
        b[:n] = data
        self._pos += n
        return n

    # -- writing ---------------------------------------------------------------------------
    def write(self, b):
        if self.closed:
            raise ValueError("I/O operation on closed file")
        if not self._w:
            raise io.UnsupportedOperation("not writable")
        b = bytes(b)
        if self.frozen:
            # the process is gone: nothing reaches the disk any more, nothing is logged
            return len(b)
        idx = self.n_write
        self.n_write += 1
        w = self._world
        fault = self.plan.write_faults.get(idx)
        if self._append:
            self._pos = len(self._inode.data)
        if fault is not None and fault["kind"] == "error":
            torn = min(int(fault.get("torn", 0)), max(len(b) - 1, 0))
            if torn > 0:
                # the process dies / the disk fills up inside this call: a prefix of the call's bytes
                # persists and nothing written later reaches the device (all handles freeze now)
                self._store(b[:torn])
                w.fault("raw_write_torn")
                w.fs.freeze_all()
            else:
                w.fault("raw_write_error")
            self.writes.append((self._pos - torn, torn, len(b), "error"))
            code = getattr(_errno, fault.get("errno", "ENOSPC"))
            w.log("raw", self.label, "write#%d" % idx, "%d/%d -> OSError(%s)" % (torn, len(b), fault.get("errno", "ENOSPC")))
            raise OSError(code, _os.strerror(code) + " (injected)")
        if fault is not None and fault["kind"] == "short" and len(b) > 1:
            n = max(1, min(int(fault.get("accept", 1)), len(b) - 1))
            self._store(b[:n])
            self.writes.append((self._pos - n, n, len(b), "short"))
            w.fault("raw_write_short")
            w.log("raw", self.label, "write#%d" % idx, "%d/%d short" % (n, len(b)))
            return n
        self._store(b)
        self.writes.append((self._pos - len(b), len(b), len(b), "ok"))
        w.raw_writes += 1
        return len(b)

    def _store(self, b):
        d = self._inode.data
        if self._pos > len(d):
            d.extend(b"\0" * (self._pos - len(d)))
        d[self._pos : self._pos + len(b)] = b
        self._pos += len(b)

    def freeze(self):
        self.frozen = True


class SimFS:
    """Directory tree + inodes.  Paths are absolute POSIX strings under /simfs."""

    def __init__(self, world):
        self.world = world
        self.files = {}  # path -> Inode
        self.dirs = {ROOT}
        self._ino = 0
        self.handles = []  # every SimRaw ever opened (kept referenced for the whole run)
        self.wrappers = []  # every Buffered*/TextIOWrapper created by open()
        self.write_plans = {}  # path -> list of HandlePlan for successive opens for writing
        self.read_plans = {}  # path -> HandlePlan applied to every open for reading
        self.buffer_size = io.DEFAULT_BUFFER_SIZE
        self.read_buffer_size = io.DEFAULT_BUFFER_SIZE
        self.open_counts = {}
        self.events = []  # ("create"|"overwrite"|"rename"|"truncate", ...)
        self.next_fd = 1000  # simulated descriptor numbers (a scenario may start at 1: "stdout was closed")
        self.fds = {}  # fd -> Inode
        self.inject = {}  # one-shot directory-level faults: {"rename": errno name, "open_w": errno name}

    # -- helpers ---------------------------------------------------------------------------
    @staticmethod
    def norm(path):
        if isinstance(path, _os.PathLike):
            path = _os.fspath(path)
        return posixpath.normpath(path)

    def alloc_fd(self, inode):
        fd = self.next_fd
        self.next_fd += 1
        if self.next_fd == 2:
            self.next_fd = 3  # 2 is stderr
        self.fds[fd] = inode
        return fd

    def stat(self, path, *a, **k):
        import stat as _stat

        path = self.norm(path)
        if path in self.dirs:
            return _os.stat_result((_stat.S_IFDIR | 0o755, abs(hash(path)) % (1 << 30), 1, 2, 0, 0, 4096, 0, 0, 0))
        if path in self.files:
            ino = self.files[path]
            if ino.fifo:
                return _os.stat_result((_stat.S_IFIFO | 0o600, ino.ino, 1, 1, 0, 0, 0, 0, 0, 0))
            return _os.stat_result((_stat.S_IFREG | 0o644, ino.ino, 1, 1, 0, 0, len(ino.data), 0, 0, 0))
        raise self._missing(path)

    def getsize(self, path):
        return self.stat(path).st_size

    def fstat(self, fd):
        import stat as _stat

        ino = self.fds[fd]
        return _os.stat_result((_stat.S_IFREG | 0o644, ino.ino, 1, 1, 0, 0, len(ino.data), 0, 0, 0))

    def new_inode(self, data=b""):
        self._ino += 1
        return Inode(self._ino, data)

    def put(self, path, data):
        """Harness-side: create a file with content (parents created)."""
        path = self.norm(path)
        self.makedirs(posixpath.dirname(path), exist_ok=True)
        self.files[path] = self.new_inode(data)

    def put_fifo(self, path, data):
        """Harness-side: a pipe-like node holding what a producer already wrote (and closed)."""
        self.put(path, data)
        self.files[self.norm(path)].fifo = True

    def get(self, path):
        return bytes(self.files[self.norm(path)].data)

    def listing(self):
        return sorted(self.files)

    def _missing(self, path):
        """The error a POSIX file system gives for a path that does not resolve."""
        anc = posixpath.dirname(path)
        while anc not in ("", "/"):
            if anc in self.files:
                return NotADirectoryError(_errno.ENOTDIR, "Not a directory", path)
            if anc in self.dirs:
                break
            anc = posixpath.dirname(anc)
        return FileNotFoundError(_errno.ENOENT, "No such file or directory", path)

    # -- os-level operations ---------------------------------------------------------------
    def exists(self, path):
        path = self.norm(path)
        return path in self.files or path in self.dirs

    def isdir(self, path):
        return self.norm(path) in self.dirs

    def isfile(self, path):
        ino = self.files.get(self.norm(path))
        return ino is not None and not ino.fifo

    def realpath(self, path):
        return self.norm(path)

    def makedirs(self, path, mode=0o777, exist_ok=False):
        path = self.norm(path)
        if path in self.files:
            raise FileExistsError(_errno.EEXIST, "File exists", path)
        if path in self.dirs:
            if exist_ok:
                return
            raise FileExistsError(_errno.EEXIST, "File exists", path)
        parts = []
        p = path
        while p not in self.dirs:
            if p in self.files:
                raise NotADirectoryError(_errno.ENOTDIR, "Not a directory", p)
            parts.append(p)
            p = posixpath.dirname(p)
            if p in ("", "/"):
                break
        for p in reversed(parts):
            self.dirs.add(p)
        self.world.log("fs", "makedirs", path[len(ROOT):])

    def mkdir(self, path, mode=0o777):
        path = self.norm(path)
        if self.exists(path):
            raise FileExistsError(_errno.EEXIST, "File exists", path)
        if posixpath.dirname(path) not in self.dirs:
            raise FileNotFoundError(_errno.ENOENT, "No such file or directory", path)
        self.dirs.add(path)

    def rename(self, src, dst):
        src, dst = self.norm(src), self.norm(dst)
        if self.inject.get("rename"):
            code = getattr(_errno, self.inject.pop("rename"))
            self.world.fault("rename_error")
            self.world.log("fs", "rename", src[len(ROOT):], "-> OSError (injected)")
            raise OSError(code, _os.strerror(code) + " (injected)", src)
        if src in self.dirs:
            if dst == src:
                return
            if dst in self.files:
                raise NotADirectoryError(_errno.ENOTDIR, "Not a directory", dst)
            if dst.startswith(src + "/"):
                raise OSError(_errno.EINVAL, "Invalid argument", src)
            if posixpath.dirname(dst) not in self.dirs:
                raise self._missing(dst)
            if dst in self.dirs and any(p.startswith(dst + "/") for p in list(self.files) + list(self.dirs)):
                raise OSError(_errno.ENOTEMPTY, "Directory not empty", dst)
            for p in [p for p in self.dirs if p == src or p.startswith(src + "/")]:
                self.dirs.discard(p)
                self.dirs.add(dst + p[len(src):])
            for p in [p for p in self.files if p.startswith(src + "/")]:
                self.files[dst + p[len(src):]] = self.files.pop(p)
            self.events.append(("rename-dir", src, dst))
            return
        if src not in self.files:
            raise self._missing(src)
        if dst in self.dirs:
            raise IsADirectoryError(_errno.EISDIR, "Is a directory", dst)
        if posixpath.dirname(dst) not in self.dirs:
            raise self._missing(dst)
        over = dst in self.files and dst != src
        if over:
            self.events.append(("overwrite", "rename", src, dst, self.files[dst].ino))
            self.world.fault("rename_overwrote")
        ino = self.files.pop(src)
        self.files[dst] = ino
        self.events.append(("rename", src, dst, ino.ino))
        self.world.log("fs", "rename", src[len(ROOT):], dst[len(ROOT):], "over" if over else "free")

    replace = rename

    def remove(self, path):
        path = self.norm(path)
        if path not in self.files:
            raise FileNotFoundError(_errno.ENOENT, "No such file or directory", path)
        del self.files[path]

    unlink = remove

    def link(self, src, dst):
        """A second name for the same inode; never replaces an existing name."""
        src, dst = self.norm(src), self.norm(dst)
        if src not in self.files:
            raise self._missing(src)
        if dst in self.files or dst in self.dirs:
            raise FileExistsError(_errno.EEXIST, "File exists", dst)
        if posixpath.dirname(dst) not in self.dirs:
            raise self._missing(dst)
        self.files[dst] = self.files[src]
        self.events.append(("link", src, dst))

    def scandir(self, path="."):
        fs = self
        path = self.norm(path)
        names = self.listdir(path)

        class _Entry:
            def __init__(self, name):
                self.name = name
                self.path = path + "/" + name

            def is_dir(self, follow_symlinks=True):
                return fs.isdir(self.path)

            def is_file(self, follow_symlinks=True):
                return fs.isfile(self.path)

            def is_symlink(self):
                return False

            def stat(self, follow_symlinks=True):
                return fs.stat(self.path)

        class _It(list):
            def __enter__(self):
                return self

            def __exit__(self, *a):
                return False

            def close(self):
                pass

        return _It(_Entry(n) for n in names)

    def listdir(self, path):
        path = self.norm(path)
        if path not in self.dirs:
            raise FileNotFoundError(_errno.ENOENT, "No such file or directory", path)
        out = set()
        pre = path + "/"
        for p in list(self.files) + list(self.dirs):
            if p.startswith(pre):
                out.add(p[len(pre):].split("/", 1)[0])
        return sorted(out)

    # -- open ------------------------------------------------------------------------------
    def open(self, file, mode="r", buffering=-1, encoding=None, errors=None, newline=None, closefd=True, opener=None):
        path = self.norm(file)
        binary = "b" in mode
        creating = any(c in mode for c in "wxa")
        reading = "r" in mode
        if not binary and buffering == 0:
            raise ValueError("can't have unbuffered text I/O")
        if path in self.dirs:
            raise IsADirectoryError(_errno.EISDIR, "Is a directory", path)
        if posixpath.dirname(path) not in self.dirs:
            raise self._missing(path)
        n_open = self.open_counts.get((path, creating), 0)
        self.open_counts[(path, creating)] = n_open + 1
        plan = None
        if creating and self.inject.get("open_w"):
            code = getattr(_errno, self.inject.pop("open_w"))
            self.world.fault("open_error")
            self.world.log("fs", "open", path[len(ROOT):], "-> OSError (injected)")
            raise OSError(code, _os.strerror(code) + " (injected)", path)
        if creating:
            if "x" in mode and path in self.files:
                raise FileExistsError(_errno.EEXIST, "File exists", path)
            if path in self.files:
                if "w" in mode:
                    old = self.files[path]
                    if len(old.data):
                        self.events.append(("truncate", path, old.ino, len(old.data)))
                    # POSIX: same inode, truncated
                    del old.data[:]
                inode = self.files[path]
            else:
                inode = self.new_inode()
                self.files[path] = inode
                self.events.append(("create", path, inode.ino))
            plans = self.write_plans.get(path)
            if plans and n_open < len(plans):
                plan = plans[n_open]
            label = "%s#w%d" % (path[len(ROOT):], n_open)
        else:
            if path not in self.files:
                raise self._missing(path)
            inode = self.files[path]
            plan = self.read_plans.get(path)
            label = "%s#r%d" % (path[len(ROOT):], n_open)
        raw = SimRaw(self.world, inode, mode, path, plan, label)
        if inode.fifo:
            raw.seekable_flag = False
        self.handles.append(raw)
        self.world.log("fs", "open", path[len(ROOT):], "".join(sorted(set(mode))))
        if buffering == 0:
            return raw
        if buffering in (-1, 1) or buffering is None:
            bs = self.buffer_size if creating else self.read_buffer_size
        else:
            bs = buffering
        if "+" in mode:
            buf = io.BufferedRandom(raw, bs)
        elif creating:
            buf = io.BufferedWriter(raw, bs)
        else:
            buf = io.BufferedReader(raw, bs)
        self.wrappers.append(buf)
        if binary:
            return buf
        text = io.TextIOWrapper(buf, encoding=encoding, errors=errors, newline=newline)
        text.mode = mode
        self.wrappers.append(text)
        return text

    def freeze_all(self):
        for h in self.handles:
            h.freeze()
