"""Deep canonical observation of records.

"The same record" / "unmodified" is judged on this observation, not on ``Record.__eq__`` (which
ignores descriptors' field lists for some types and compares addresses by integer).  The
observation is a JSON-able nested list so that it can be hashed into the event-log digest and
printed in replay traces.
"""

import datetime as _dt
import pathlib
import struct


def obs_value(v):
    from flow.record import GroupedRecord, Record

    if v is None:
        return None
    cls = type(v).__name__
    if isinstance(v, GroupedRecord):
        return ["grouped", v.name, [obs_record(r) for r in v.records]]
    if isinstance(v, Record):
        return ["record", obs_record(v)]
    if isinstance(v, bool):
        return [cls, bool(v)]
    if isinstance(v, int):
        return [cls, str(int(v))]
    if isinstance(v, float):
        return [cls, struct.pack(">d", float(v)).hex()]
    if isinstance(v, _dt.datetime):
        off = v.utcoffset()
        return [
            cls,
            [v.year, v.month, v.day, v.hour, v.minute, v.second, v.microsecond],
            None if off is None else off.total_seconds(),
        ]
    if isinstance(v, (bytes, bytearray)):
        return [cls, bytes(v).hex()]
    if isinstance(v, str):
        return [cls, [ord(c) for c in v] if any(ord(c) > 0x7E or ord(c) < 0x20 for c in v) else str(v)]
    if isinstance(v, pathlib.PurePath):
        flavour = "windows" if isinstance(v, pathlib.PureWindowsPath) else "posix"
        return ["path", flavour, str(v)]
    if isinstance(v, (list, tuple)):
        return [cls, [obs_value(x) for x in v]]
    if isinstance(v, dict):
        return ["dict", [[str(k), obs_value(x)] for k, x in v.items()]]
    # digests, addresses, commands, ...: class + packed form + text
    packed = v._pack() if hasattr(v, "_pack") else None
    try:
        packed = obs_value(packed) if not isinstance(packed, type(v)) else None
    except Exception:
        packed = repr(packed)
    return [cls, packed, str(v)]


def obs_record(rec, meta=True):
    """[name, [[type, field], ...], [[field, value-observation], ...]]"""
    from flow.record import GroupedRecord, Record

    if not isinstance(rec, Record):
        return ["NOT-A-RECORD", type(rec).__name__, repr(rec)[:80]]
    if isinstance(rec, GroupedRecord):
        return ["grouped", rec.name, [obs_record(r, meta) for r in rec.records]]
    d = rec._desc
    fields = [[t, n] for t, n in d.get_field_tuples()]
    vals = []
    for k in rec.__slots__:
        if not meta and k.startswith("_"):
            continue
        try:
            v = getattr(rec, k)
        except AttributeError:
            vals.append([k, ["<UNSET-SLOT>"]])
            continue
        vals.append([k, obs_value(v)])
    return [d.name, fields, vals]


def obs_descriptor(rec):
    d = rec._desc
    return [d.name, [[t, n] for t, n in d.get_field_tuples()]]


def short(o, limit=300):
    s = repr(o)
    return s if len(s) <= limit else s[: limit - 3] + "..."
