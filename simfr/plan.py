"""Plans are JSON documents.  This module holds the tagged value codec and helpers that turn the
``pool`` / ``values`` parts of a plan into live descriptors and records (inside a World)."""

import datetime as _dt
import hashlib
import json
import struct

UTC = _dt.timezone.utc


# -- tagged values -----------------------------------------------------------------------------
def enc_value(v):
    """Python value (harness side, plain types) -> JSON-able tagged value."""
    if v is None or isinstance(v, (bool, str)):
        return v
    if isinstance(v, int):
        if -(2**53) < v < 2**53:
            return v
        return {"$int": str(v)}
    if isinstance(v, float):
        return {"$f": struct.pack(">d", v).hex()}
    if isinstance(v, (bytes, bytearray)):
        return {"$b": bytes(v).hex()}
    if isinstance(v, _dt.datetime):
        off = v.utcoffset()
        return {"$dt": v.replace(tzinfo=None).isoformat(), "off": None if off is None else int(off.total_seconds())}
    if isinstance(v, (list, tuple)):
        return {"$l": [enc_value(x) for x in v]}
    if isinstance(v, dict):
        return v  # already tagged
    raise TypeError("cannot encode %r" % (v,))


def dec_value(v, mk=None):
    """Tagged JSON value -> plain Python value.  ``mk`` resolves {"$rec": [desc, values]}."""
    if v is None or isinstance(v, (bool, str, int)):
        return v
    if isinstance(v, float):
        return v
    if isinstance(v, list):
        return [dec_value(x, mk) for x in v]
    if isinstance(v, dict):
        if "$int" in v:
            return int(v["$int"])
        if "$f" in v:
            return struct.unpack(">d", bytes.fromhex(v["$f"]))[0]
        if "$b" in v:
            return bytes.fromhex(v["$b"])
        if "$dt" in v:
            d = _dt.datetime.fromisoformat(v["$dt"])
            off = v.get("off")
            if off is not None:
                d = d.replace(tzinfo=UTC if off == 0 else _dt.timezone(_dt.timedelta(seconds=off)))
            return d
        if "$l" in v:
            return [dec_value(x, mk) for x in v["$l"]]
        if "$path" in v:
            flavour, s = v["$path"]
            from flow.record.fieldtypes import path as _path

            return _path.from_windows(s) if flavour == "windows" else _path.from_posix(s)
        if "$rec" in v:
            return mk(v["$rec"][0], v["$rec"][1])
        if "$grp" in v:
            from flow.record import GroupedRecord

            return GroupedRecord(v["$grp"][0], [dec_value(x, mk) for x in v["$grp"][1]])
    raise TypeError("cannot decode %r" % (v,))


class Pool:
    """Live descriptors for a plan's ``pool`` (name -> [record name, [[type, field], ...]])."""

    def __init__(self, pool_json):
        from flow.record import RecordDescriptor

        self.json = pool_json
        self.desc = {}
        for key in sorted(pool_json):
            name, fields = pool_json[key]
            self.desc[key] = RecordDescriptor(name, [tuple(f) for f in fields])

    def fields(self, key):
        name, fields = self.json[key]
        return name, tuple((t, n) for t, n in fields)

    def make(self, key, values, meta=None):
        """Create a record of descriptor ``key``.  Each call creates a *fresh* descriptor object
        half of the time?  No: deterministic - always the pool's object."""
        d = self.desc[key]
        vals = [dec_value(v, self.make) for v in values]
        rec = d(*vals)
        if meta:
            for k, v in meta.items():
                setattr(rec, k, dec_value(v, self.make))
        return rec


def plan_digest(plan):
    return hashlib.sha256(json.dumps(plan, sort_keys=True, separators=(",", ":")).encode()).hexdigest()[:16]


def dumps(plan):
    return json.dumps(plan, sort_keys=True, indent=1)
