"""Seed fan-out, watchdogs, known-finding matching, minimisation, replay, evidence, exit codes.

Exit codes: 0 property held on everything explored; 1 at least one VIOLATION; 2 HARNESS-ERROR
(timeouts, divergence between two executions of one plan, exceptions inside the harness).
"""

import collections
import concurrent.futures as cf
import faulthandler
import hashlib
import importlib
import json
import multiprocessing
import os
import random
import resource
import signal
import subprocess
import sys
import time
import traceback

from . import plan as planmod
from . import simfs

VERIF = os.path.dirname(os.path.dirname(os.path.abspath(__file__)))

SCENARIOS = {
    "C03": "simfr.scenarios.c03_descriptors",
    "C04": "simfr.scenarios.c04_crash",
    "C11": "simfr.scenarios.c11_detect",
    "C16": "simfr.scenarios.c16_rdump",
    "C17": "simfr.scenarios.c17_writers",
    "C18": "simfr.scenarios.c18_sqlite",
}

REAL_COMPONENTS = [
    "flow.record (packers, stream reader/writer, adapters, rdump.main, selectors) from VERIF_REPO",
    "msgpack", "gzip/zlib", "bz2", "lz4.frame", "zstandard", "io.BufferedReader/BufferedWriter/TextIOWrapper",
    "fastavro", "csv", "json", "argparse", "sqlite3 engine and its file locking",
]  # fmt: skip
STUB_COMPONENTS = [
    "raw byte device and directory tree (SimFS/SimRaw)", "wall clock (SimClock behind base._utcnow, stream.datetime, gzip.time)",
    "sys.stdin/sys.stdout objects", "pipe delivery (chunk schedule of raw reads)", "process boundary (crash = stop + freeze handles)",
]  # fmt: skip


class HangError(BaseException):
    """Raised by the per-run alarm; deliberately not an Exception so library handlers do not eat it."""


def _alarm(signum, frame):
    raise HangError()


def run_seed(master, prop, i):
    h = hashlib.sha256(("%d/%s/%d" % (master, prop, i)).encode()).digest()
    return int.from_bytes(h[:8], "big")


def load_scenario(prop):
    return importlib.import_module(SCENARIOS[prop])


# -- known findings ---------------------------------------------------------------------------
def load_known(prop):
    known, fixed = [], []
    path = os.path.join(VERIF, "KNOWN_FINDINGS.txt")
    if not os.path.exists(path):
        return known, fixed
    for line in open(path):
        line = line.strip()
        if not line or line.startswith("#"):
            continue
        kind, _, rest = line.partition(":")
        toks = rest.split()
        kv = dict(t.split("=", 1) for t in toks if "=" in t and t.split("=", 1)[0] in ("property", "key", "invariant"))
        if kv.get("property") != prop:
            continue
        text = " ".join(t for t in toks if not (("=" in t) and t.split("=", 1)[0] in ("property", "key", "invariant")))
        if kind == "known":
            known.append({"key": kv["key"], "invariant": kv.get("invariant"), "text": text})
        elif kind == "fixed":
            fixed.append(text)
    return known, fixed


def classify(scn, known, plan, viol):
    """-> key of the known finding this violation structurally is, or None."""
    for k in known:
        if k["invariant"] and k["invariant"] != viol["invariant"]:
            continue
        fn = getattr(scn, "KNOWN", {}).get(k["key"])
        if fn is None:
            continue
        try:
            if fn(plan, viol):
                return k["key"]
        except Exception:  # a classifier that crashes never suppresses anything
            continue
    return None


# -- one plan -----------------------------------------------------------------------------------
_TIMEOUT = [60]


def heartbeat():
    """Called by scenarios after every evaluation / step: the hang alarm measures one step, not a whole
    enumeration (a long enumeration is not a hang)."""
    signal.setitimer(signal.ITIMER_REAL, _TIMEOUT[0])


def execute_guarded(scn, plan, keep_log=False, timeout=60):
    """Execute a plan under the hang alarm.  -> outcome dict (always has 'violations')."""
    old = signal.signal(signal.SIGALRM, _alarm)
    _TIMEOUT[0] = timeout
    signal.setitimer(signal.ITIMER_REAL, timeout)
    try:
        out = scn.execute(plan, keep_log=keep_log)
    except HangError:
        out = {
            "violations": [{"invariant": "%s.hang" % plan["property"], "detail": "one step of the run did not return within %ss of wall time" % timeout, "info": {}}],
            "digest": "hang", "stats": collections.Counter(), "states": set(), "evals": 1, "sim_us": 0,
        }  # fmt: skip
    except simfs.Livelock as e:
        out = {
            "violations": [{"invariant": "%s.hang" % plan["property"], "detail": "no termination: %s" % e, "info": {}}],
            "digest": "livelock", "stats": collections.Counter(), "states": set(), "evals": 1, "sim_us": 0,
        }  # fmt: skip
    finally:
        signal.setitimer(signal.ITIMER_REAL, 0)
        signal.signal(signal.SIGALRM, old)
    return out


def _worker(args):
    prop, master, tier, indices, det_every, known = args
    try:
        resource.setrlimit(resource.RLIMIT_AS, (6 << 30, 6 << 30))
    except Exception:
        pass
    faulthandler.enable()
    scn = load_scenario(prop)
    res = {
        "runs": 0, "evals": 0, "stats": collections.Counter(), "states": set(), "sim_us": 0,
        "viol": [], "known_seen": collections.Counter(), "known_example": {}, "det": [], "errors": [], "samples": [],
        "digests": {},
    }  # fmt: skip
    t_end = args_deadline()
    for i in indices:
        if t_end and time.time() > t_end:
            res["budget_exhausted"] = True
            break
        s = run_seed(master, prop, i)
        faulthandler.dump_traceback_later(300, exit=True)
        try:
            plan = scn.generate(random.Random(s), tier, i)
            plan["property"] = prop
            plan["seed"] = s
            plan["index"] = i
            plan["tier"] = tier
            out = execute_guarded(scn, plan)
            res["runs"] += 1
            res["evals"] += out.get("evals", 1)
            res["stats"].update(out["stats"])
            res["states"] |= out["states"]
            res["sim_us"] += out.get("sim_us", 0)
            if det_every and i % det_every == 0:
                out2 = execute_guarded(scn, plan)
                res["det"].append((i, out["digest"], out2["digest"]))
                res["digests"][i] = out["digest"]
            if len(res["samples"]) < 2 and out.get("sample") is not None:
                res["samples"].append(out["sample"])
            for v in out["violations"]:
                key = classify(scn, known, plan, v)
                if key:
                    res["known_seen"][key] += 1
                    if key not in res["known_example"]:
                        res["known_example"][key] = (i, plan, v)
                else:
                    if sum(1 for (_, _, vv) in res["viol"] if vv["invariant"] == v["invariant"]) < 2:
                        res["viol"].append((i, plan, v))
        except Exception:
            res["errors"].append((i, traceback.format_exc()))
            if len(res["errors"]) > 3:
                break
        finally:
            faulthandler.cancel_dump_traceback_later()
    return res


def mutate_ops(plan, rng, fix=None):
    """Generic plan mutation for the feedback corpus: duplicate / delete / swap / move one op."""
    import copy

    p = copy.deepcopy(plan)
    ops = p.get("ops") or []
    if ops:
        k = rng.choice(["dup", "del", "swap", "move", "dup"])
        i = rng.randrange(len(ops))
        if k == "dup":
            ops.insert(rng.randrange(len(ops) + 1), copy.deepcopy(ops[i]))
        elif k == "del" and len(ops) > 1:
            del ops[i]
        elif k == "swap" and len(ops) > 1:
            j = min(len(ops) - 1, i + 1)
            ops[i], ops[j] = ops[j], ops[i]
        else:
            op = ops.pop(i)
            ops.insert(rng.randrange(len(ops) + 1), op)
        p["ops"] = ops
    if fix:
        q = fix(p)
        if q is not None:
            p = q
    return p


def _lane(args):
    """Thorough tier: one long-running lane per worker with its own decision stream and a corpus of
    plans that reached an abstract state this lane had not seen (state-coverage feedback)."""
    prop, master, tier, lane, n_lanes, n_runs, known = args
    try:
        resource.setrlimit(resource.RLIMIT_AS, (6 << 30, 6 << 30))
    except Exception:
        pass
    faulthandler.enable()
    scn = load_scenario(prop)
    res = {
        "runs": 0, "evals": 0, "stats": collections.Counter(), "states": set(), "sim_us": 0,
        "viol": [], "known_seen": collections.Counter(), "known_example": {}, "det": [], "errors": [], "samples": [],
        "digests": {}, "corpus": 0, "mutated": 0,
    }  # fmt: skip
    r = random.Random(run_seed(master, prop + "/lane", lane))
    corpus = []
    t_end = args_deadline()
    mut = getattr(scn, "mutate", None)
    for i in range(lane, n_runs, n_lanes):
        if t_end and time.time() > t_end:
            res["budget_exhausted"] = True
            break
        s = run_seed(master, prop, i)
        faulthandler.dump_traceback_later(600, exit=True)
        try:
            if mut and corpus and r.random() < 0.5:
                plan = mut(r.choice(corpus), r)
                res["mutated"] += 1
            else:
                plan = scn.generate(random.Random(s), tier, i)
            plan.update({"property": prop, "seed": s, "index": i, "tier": tier})
            out = execute_guarded(scn, plan, timeout=120)
            res["runs"] += 1
            res["evals"] += out.get("evals", 1)
            res["stats"].update(out["stats"])
            new = out["states"] - res["states"]
            res["states"] |= out["states"]
            res["sim_us"] += out.get("sim_us", 0)
            if new and not out["violations"]:
                corpus.append(plan)
                if len(corpus) > 300:
                    del corpus[r.randrange(len(corpus))]
                res["corpus"] += 1
            if res["runs"] % 997 == 1:
                out2 = execute_guarded(scn, plan, timeout=120)
                res["det"].append((i, out["digest"], out2["digest"]))
            if len(res["samples"]) < 2 and out.get("sample") is not None:
                res["samples"].append(out["sample"])
            for v in out["violations"]:
                key = classify(scn, known, plan, v)
                if key:
                    res["known_seen"][key] += 1
                elif sum(1 for (_, _, vv) in res["viol"] if vv["invariant"] == v["invariant"]) < 2:
                    res["viol"].append((i, plan, v))
        except Exception:
            res["errors"].append((i, traceback.format_exc()))
            if len(res["errors"]) > 3:
                break
        finally:
            faulthandler.cancel_dump_traceback_later()
    return res


_DEADLINE = [None]


def args_deadline():
    return _DEADLINE[0]


# -- minimisation -------------------------------------------------------------------------------
def minimise(scn, plan, viol, known, want_known=None, budget_s=60):
    """Delta debugging over the plan while the same invariant id (and the same known/unknown
    classification) persists."""
    target = viol["invariant"]
    t_end = time.time() + budget_s
    evals = [0]

    def still_fails(p):
        evals[0] += 1
        try:
            out = execute_guarded(scn, p, timeout=30)
        except Exception:
            return None
        for v in out["violations"]:
            if v["invariant"] != target:
                continue
            k = classify(scn, known, p, v)
            if k == want_known:
                return v
        return None

    def pin(p, v):
        fn = getattr(scn, "pin_fault", None)
        if not fn:
            return p
        q = fn(p, v)
        if q is not p and still_fails(q):
            return q
        return p

    best, best_v = pin(plan, viol), viol
    changed = True
    while changed and time.time() < t_end:
        changed = False
        # 1. ops: drop chunks, then single ops
        ops = best.get("ops")
        if ops:
            n = 2
            while len(ops) >= 1 and time.time() < t_end:
                chunk = max(1, len(ops) // n)
                reduced = False
                for start in range(0, len(ops), chunk):
                    cand_ops = ops[:start] + ops[start + chunk :]
                    if len(cand_ops) == len(ops):
                        continue
                    cand = dict(best)
                    cand["ops"] = cand_ops
                    fix = getattr(scn, "fix_plan", None)
                    if fix:
                        cand = fix(cand)
                        if cand is None:
                            continue
                    v = still_fails(cand)
                    if v:
                        cand = pin(cand, v)
                        best, best_v, ops = cand, v, cand["ops"]
                        reduced = changed = True
                        n = max(n - 1, 2)
                        break
                    if time.time() > t_end:
                        break
                if not reduced:
                    if chunk == 1:
                        break
                    n = min(n * 2, len(ops))
        # 2. scenario-specific candidates (faults, knobs, values)
        shrink = getattr(scn, "shrink_candidates", None)
        if shrink:
            progress = True
            while progress and time.time() < t_end:
                progress = False
                for cand in shrink(best):
                    if time.time() > t_end:
                        break
                    v = still_fails(cand)
                    if v:
                        best, best_v = pin(cand, v), v
                        progress = changed = True
                        break
    return best, best_v, evals[0]


def write_replay(prop, plan, viol, scn, subdir=None):
    out = execute_guarded(scn, plan, keep_log=True)
    d = os.path.join(os.environ.get("VERIF_REPLAY_DIR") or os.path.join(VERIF, "replays"), subdir or prop)
    os.makedirs(d, exist_ok=True)
    doc = dict(plan)
    doc["format"] = 1
    doc["scenario"] = scn.NAME
    doc["expect"] = {"invariant": viol["invariant"], "digest": out["digest"], "detail": viol["detail"]}
    doc["trace"] = out.get("trace") or []
    name = "%s-%d.json" % (viol["invariant"].replace("@", "_at_"), plan.get("seed", 0))
    path = os.path.join(d, name)
    with open(path, "w") as f:
        f.write(planmod.dumps(doc))
    return path


def replay(prop, path):
    scn = load_scenario(prop)
    doc = json.load(open(path))
    expect = doc.get("expect", {})
    out = execute_guarded(scn, doc, keep_log=True)
    out2 = execute_guarded(scn, doc)
    if out["digest"] != out2["digest"]:
        print("HARNESS-ERROR replay of %s is not deterministic (%s vs %s)" % (path, out["digest"], out2["digest"]))
        return 2
    hit = [v for v in out["violations"] if v["invariant"] == expect.get("invariant")]
    for line in out.get("trace") or []:
        print("  | " + line)
    if hit:
        print("replay: %s: %s" % (hit[0]["invariant"], hit[0]["detail"]))
        known, _ = load_known(prop)
        key = classify(scn, known, doc, hit[0])
        if key:
            print("replay: note: structurally this is the known finding key=%s (a check run prints it as KNOWN-FINDING and exits 0)" % key)
        if expect.get("digest") and expect["digest"] != out["digest"]:
            print("replay: note: event-log digest differs from the recorded one (tree changed?) %s != %s" % (out["digest"], expect["digest"]))
        print("VIOLATION property=%s replay=%s" % (prop, path))
        return 1
    if out["violations"]:
        print("replay: expected invariant %s not violated, but: %s" % (expect.get("invariant"), [v["invariant"] for v in out["violations"]]))
        print("VIOLATION property=%s replay=%s" % (prop, path))
        return 1
    print("replay: no violation on this tree (expected %s)" % expect.get("invariant"))
    return 0


# -- the check ----------------------------------------------------------------------------------
def repo_info():
    repo = os.environ.get("VERIF_REPO", "/repo")
    info = {"path": repo}
    try:
        info["head"] = subprocess.run(["git", "-C", repo, "rev-parse", "HEAD"], capture_output=True, text=True, timeout=20).stdout.strip()
        info["dirty"] = bool(subprocess.run(["git", "-C", repo, "status", "--porcelain", "--untracked-files=no"], capture_output=True, text=True, timeout=20).stdout.strip())
    except Exception:
        pass
    return info


def run_check(prop, tier):
    t0 = time.time()
    scn = load_scenario(prop)
    master = int(os.environ.get("VERIF_SEED", "0") or 0)
    workers = int(os.environ.get("VERIF_WORKERS", "16") or 16)
    n_runs = int(os.environ.get("VERIF_RUNS", "0") or 0) or scn.budget(tier)
    budget_s = float(os.environ.get("VERIF_BUDGET_S", "0") or 0) or scn.wall_cap(tier)
    known, fixed = load_known(prop)
    _DEADLINE[0] = t0 + budget_s
    print("check %s tier=%s VERIF_SEED=%d runs=%d workers=%d scenario=%s repo=%s" % (prop, tier, master, n_runs, workers, scn.NAME, os.environ.get("VERIF_REPO", "/repo")))
    sys.stdout.flush()

    # import flow.record once in the parent so that forked workers share it
    from . import world

    world.load_flow()

    chunk = max(1, min(200, n_runs // (workers * 8) or 1))
    det_every = max(1, n_runs // 64)
    jobs = []
    for start in range(0, n_runs, chunk):
        jobs.append((prop, master, tier, list(range(start, min(n_runs, start + chunk))), det_every, known))

    agg = {
        "runs": 0, "evals": 0, "stats": collections.Counter(), "states": set(), "sim_us": 0, "viol": [],
        "known_seen": collections.Counter(), "known_example": {}, "det": [], "errors": [], "samples": [], "digests": {},
        "budget_exhausted": False,
    }  # fmt: skip
    harness_errors = []
    ctx = multiprocessing.get_context("fork")
    lanes = tier == "thorough" and os.environ.get("VERIF_FEEDBACK", "1") != "0"
    with cf.ProcessPoolExecutor(max_workers=workers, mp_context=ctx) as ex:
        if lanes:
            futs = [ex.submit(_lane, (prop, master, tier, k, workers, n_runs, known)) for k in range(workers)]
        else:
            futs = [ex.submit(_worker, j) for j in jobs]
        try:
            for f in cf.as_completed(futs, timeout=budget_s + 600):
                try:
                    r = f.result()
                except Exception as e:  # worker died
                    harness_errors.append("worker failed: %r" % (e,))
                    continue
                agg["runs"] += r["runs"]
                agg["evals"] += r["evals"]
                agg["stats"].update(r["stats"])
                agg["states"] |= r["states"]
                agg["sim_us"] += r["sim_us"]
                agg["viol"] += r["viol"]
                agg["known_seen"].update(r["known_seen"])
                for k, v in r["known_example"].items():
                    if k not in agg["known_example"] or v[0] < agg["known_example"][k][0]:
                        agg["known_example"][k] = v
                agg["det"] += r["det"]
                agg["digests"].update(r["digests"])
                agg["errors"] += r["errors"]
                agg["samples"] += r["samples"][:1]
                agg["budget_exhausted"] |= bool(r.get("budget_exhausted"))
                agg["corpus"] = agg.get("corpus", 0) + r.get("corpus", 0)
                agg["mutated"] = agg.get("mutated", 0) + r.get("mutated", 0)
        except cf.TimeoutError:
            harness_errors.append("timeout waiting for workers")
            for p in list(getattr(ex, "_processes", {}).values()):
                try:
                    p.kill()
                except Exception:
                    pass

    for i, tb in agg["errors"][:5]:
        harness_errors.append("run index %d raised inside the harness:\n%s" % (i, tb))
    bad_det = [(i, a, b) for (i, a, b) in agg["det"] if a != b]
    for i, a, b in bad_det[:5]:
        harness_errors.append("run index %d is not deterministic: %s vs %s" % (i, a, b))
    # cross-process determinism: the parent re-executes a few of the runs the workers digested
    cross = 0
    for i in sorted(agg["digests"])[:6]:
        s = run_seed(master, prop, i)
        p = scn.generate(random.Random(s), tier, i)
        p.update({"property": prop, "seed": s, "index": i, "tier": tier})
        d = execute_guarded(scn, p)["digest"]
        cross += 1
        if d != agg["digests"][i]:
            harness_errors.append("run index %d digest differs between worker and parent: %s vs %s" % (i, agg["digests"][i], d))

    # violations: lowest index first, one per invariant id
    viol_lines = []
    by_inv = {}
    for i, plan, v in sorted(agg["viol"], key=lambda t: t[0]):
        by_inv.setdefault(v["invariant"], (i, plan, v))
    for inv in sorted(by_inv):
        i, plan, v = by_inv[inv]
        try:
            mplan, mv, n = minimise(scn, plan, v, known, want_known=None, budget_s=float(os.environ.get("VERIF_MINIMISE_S", "45")))
        except Exception:
            mplan, mv = plan, v
        path = write_replay(prop, mplan, mv, scn)
        print("violation %s (run index %d, seed %d): %s" % (inv, i, plan["seed"], mv["detail"]))
        viol_lines.append("VIOLATION property=%s replay=%s" % (prop, path))

    for k in known:
        n = agg["known_seen"].get(k["key"], 0)
        if n:
            print("KNOWN-FINDING: property=%s %s [key=%s, seen in %d evaluations]" % (prop, k["text"], k["key"], n))

    wall = time.time() - t0
    states = sorted(agg["states"])
    faults = {k[6:]: v for k, v in sorted(agg["stats"].items()) if k.startswith("fault:")}
    probes = {k[6:]: v for k, v in sorted(agg["stats"].items()) if k.startswith("probe:")}
    others = {k: v for k, v in sorted(agg["stats"].items()) if not k.startswith(("fault:", "probe:"))}
    ev = {
        "property_id": prop,
        "tier": tier,
        "seed": master,
        "level": scn.LEVEL,
        "coverage": {
            "evaluations": agg["evals"],
            "distinct_nontrivial": len(states),
            "rule": scn.RULE,
            "samples": agg["samples"][:3] or [{"note": "no sample recorded"}],
            "state_examples": states[:: max(1, len(states) // 12)][:12],
        },
        "assumptions": scn.ASSUMPTIONS,
        "wall_s": round(wall, 2),
        "violations": len(viol_lines),
        "runs": agg["runs"],
        "runs_planned": n_runs,
        "runs_per_hour": int(agg["runs"] / wall * 3600) if wall > 0 else 0,
        "evaluations_per_hour": int(agg["evals"] / wall * 3600) if wall > 0 else 0,
        "sim_time_covered_s": round(agg["sim_us"] / 1e6, 3),
        "faults_fired": faults,
        "reach_probes": probes,
        "counters": others,
        "known_findings_seen": dict(agg["known_seen"]),
        "fixed_findings_listed": fixed,
        "budget_exhausted": agg["budget_exhausted"],
        "feedback": {"enabled": bool(lanes), "plans_kept_in_corpus": agg.get("corpus", 0), "runs_from_mutation": agg.get("mutated", 0)},
        "components": {"real": REAL_COMPONENTS, "stub": STUB_COMPONENTS},
        "determinism_sample": {"same_process_twice": len(agg["det"]), "cross_process": cross, "digests_equal": not bad_det and not any("digest differs" in e for e in harness_errors)},
        "repo": repo_info(),
        "workers": workers,
        "scenario": scn.NAME,
        "technique": "deterministic simulation with fault injection: seeded plan generation, single-threaded execution against simulated file system / clock / stdio, oracle against reference model",
    }
    evdir = os.environ.get("VERIF_EVIDENCE_DIR") or os.path.join(VERIF, "evidence")
    os.makedirs(evdir, exist_ok=True)
    with open(os.path.join(evdir, "%s.json" % prop), "w") as f:
        json.dump(ev, f, indent=1, sort_keys=True, default=str)

    print("%s %s: runs=%d evaluations=%d distinct_states=%d wall=%.1fs faults=%s" % (prop, tier, agg["runs"], agg["evals"], len(states), wall, json.dumps(faults)))
    zero = [k for k in getattr(scn, "EXPECTED_PROBES", []) if not probes.get(k)]
    if zero:
        print("note: reach probes at zero in this run: %s" % ", ".join(zero))
    if viol_lines:
        # a violation with its replay file stands on its own; harness trouble is reported next to it
        for e in harness_errors:
            print("HARNESS-WARNING %s" % e)
        for line in viol_lines:
            print(line)
        return 1
    if harness_errors:
        for e in harness_errors:
            print("HARNESS-ERROR %s" % e)
        return 2
    if agg["runs"] == 0:
        print("HARNESS-ERROR no runs executed")
        return 2
    print("OK property=%s held on everything explored" % prop)
    return 0


def main(argv):
    if len(argv) >= 1 and argv[0] == "selftest":
        from . import selftest

        return selftest.main(argv[1:])
    if len(argv) < 2:
        print("usage: check <Cxx> quick|thorough | check <Cxx> --replay <file> | check selftest [...]")
        return 2
    prop = argv[0]
    if prop not in SCENARIOS:
        print("unknown property %s (claimed: %s)" % (prop, ", ".join(sorted(SCENARIOS))))
        return 2
    if argv[1] == "--replay":
        return replay(prop, argv[2])
    tier = os.environ.get("VERIF_TIER") or argv[1]
    if argv[1] in ("quick", "thorough"):
        tier = argv[1]
    return run_check(prop, tier)
