"""Independent frame walker for the record stream format, and a JSON-lines walker.

Does not import flow.record.  Trusted base: ``struct``, ``msgpack``, ``json``.

Wire format: a sequence of frames, each a 4-byte big-endian length followed by a msgpack body.
The first frame's body is msgpack ``bin`` "RECORDSTREAM\\n".  Every other body is msgpack ext
type 14 whose payload is msgpack ``(subtype, value)``:
  0x01 record      value = ((name, hash32), values-tuple)
  0x02 descriptor  value = (name, ((type, field), ...))
  0x10 datetime, 0x11 varint, 0x12 grouped record  value = (name, (((name, hash), values), ...))
"""

import json
import struct

import msgpack

MAGIC = b"RECORDSTREAM\n"
EXT = 0x0E
T_RECORD, T_DESC, T_FIELDTYPE, T_DATETIME, T_VARINT, T_GROUPED = 0x1, 0x2, 0x3, 0x10, 0x11, 0x12


class Ext:
    __slots__ = ("sub", "value")

    def __init__(self, sub, value):
        self.sub = sub
        self.value = value

    def __repr__(self):
        return "Ext(%#x, %r)" % (self.sub, self.value)

    def __eq__(self, o):
        return isinstance(o, Ext) and (self.sub, self.value) == (o.sub, o.value)

    def __hash__(self):
        return hash((self.sub, repr(self.value)))


def _hook(code, data):
    if code != EXT:
        return msgpack.ExtType(code, data)
    sub, value = _unpack(data)
    return Ext(sub, value)


def _unpack(b):
    return msgpack.unpackb(
        b, ext_hook=_hook, raw=False, use_list=False, unicode_errors="surrogateescape", strict_map_key=False
    )


def _s(x):
    return x.decode("utf-8", "surrogateescape") if isinstance(x, bytes) else x


def _ident(i):
    if isinstance(i, tuple) and len(i) == 2:
        return (_s(i[0]), i[1])
    return _s(i)


class Frame:
    __slots__ = ("kind", "start", "end", "body", "info")

    def __init__(self, kind, start, end, body, info=None):
        self.kind = kind  # HEADER | DESC | REC | GROUPED | OTHER
        self.start = start
        self.end = end
        self.body = body
        self.info = info

    def __repr__(self):
        return "<%s %d..%d %r>" % (self.kind, self.start, self.end, self.info)


def nested_records(value, out):
    """Collect identifiers of records nested in a decoded value tree, depth-first, in order."""
    if isinstance(value, Ext):
        if value.sub == T_RECORD:
            ident, vals = value.value
            out.append(_ident(ident))
            nested_records(vals, out)
        elif value.sub == T_GROUPED:
            name, members = value.value
            for ident, vals in members:
                out.append(_ident(ident))
                nested_records(vals, out)
        else:
            nested_records(value.value, out)
    elif isinstance(value, (tuple, list)):
        for v in value:
            nested_records(v, out)
    elif isinstance(value, dict):
        for v in value.values():
            nested_records(v, out)


def decode_body(body):
    """-> (kind, info)"""
    obj = _unpack(body)
    if isinstance(obj, (bytes, str)) and _s(obj).encode("utf-8", "surrogateescape") == MAGIC:
        return "HEADER", None
    if isinstance(obj, Ext):
        if obj.sub == T_DESC:
            name, fields = obj.value
            return "DESC", (_s(name), tuple((_s(t), _s(n)) for t, n in fields))
        if obj.sub == T_RECORD:
            ident, vals = obj.value
            inner = []
            nested_records(vals, inner)
            return "REC", {"ident": _ident(ident), "values": vals, "nested": inner}
        if obj.sub == T_GROUPED:
            name, members = obj.value
            idents = []
            inner = []
            for ident, vals in members:
                idents.append(_ident(ident))
                nested_records(vals, inner)
            return "GROUPED", {"name": _s(name), "members": idents, "values": members, "nested": inner}
    return "OTHER", obj


def walk(data, decode=True):
    """Walk complete frames from offset 0.

    Returns (frames, stop_offset, reason) where reason is "end" (clean end on a frame boundary),
    "short-length", "short-body" or "undecodable".
    """
    frames = []
    pos = 0
    n = len(data)
    while True:
        if pos == n:
            return frames, pos, "end"
        if n - pos < 4:
            return frames, pos, "short-length"
        (size,) = struct.unpack_from(">I", data, pos)
        if n - pos - 4 < size:
            return frames, pos, "short-body"
        body = bytes(data[pos + 4 : pos + 4 + size])
        if decode:
            try:
                kind, info = decode_body(body)
            except Exception as e:  # noqa: BLE001
                return frames, pos, "undecodable:%s" % type(e).__name__
        else:
            kind, info = "RAW", None
        frames.append(Frame(kind, pos, pos + 4 + size, body, info))
        pos += 4 + size


def frame_spans(data):
    """Only the (start, end) of complete frames; never decodes."""
    out = []
    pos = 0
    n = len(data)
    while n - pos >= 4:
        (size,) = struct.unpack_from(">I", data, pos)
        if n - pos - 4 < size:
            break
        out.append((pos, pos + 4 + size))
        pos += 4 + size
    return out


# -- JSON lines ---------------------------------------------------------------------------------
def walk_jsonl(text):
    """-> list of ("DESC", (name, fields)) | ("REC", {"ident":..., "obj":...}) | ("PLAIN", obj)"""
    out = []
    for line in text.splitlines():
        if not line.strip():
            continue
        obj = json.loads(line)
        if isinstance(obj, dict) and obj.get("_type") == "recorddescriptor":
            name, fields = obj["_data"]
            out.append(("DESC", (name, tuple((t, n) for t, n in fields))))
        elif isinstance(obj, dict) and obj.get("_type") == "record":
            ident = obj.get("_recorddescriptor")
            out.append(("REC", {"ident": (ident[0], ident[1]) if ident else None, "obj": obj}))
        else:
            out.append(("PLAIN", obj))
    return out
