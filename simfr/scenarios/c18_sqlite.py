"""C18 - SQLite export keeps every record, independent of batch size.

One SqliteWriter (real SQLite engine on real files in a per-run scratch directory), independent
observer connections that look between any two writer calls, an observer that keeps a read
transaction open across the writer's commits (SQLITE_BUSY), and a crash-snapshot actor that copies
db + journal and opens the copy.  The same workload is executed under a second batch size and the
decoded final content compared.  See DESIGN.md 5.6.
"""

import collections
import datetime as _dt
import os
import shutil
import sqlite3
import tempfile
import types

from .. import gen
from ..observe import short
from ..plan import Pool, dec_value, enc_value
from ..world import World

NAME = "c18_sqlite"
PROP = "C18"
LEVEL = "exploration"
RULE = (
    "each run generates a record sequence over 1..3 tables with gain-only schema evolution, arbitrary valid (also SQL-keyword, mixed-case, "
    "slashed) names, SQLite-mappable values incl. 64-bit boundaries, a batch size from {1,2,3,5,1000}, and a seeded schedule of observer "
    "looks, lock holders (raw read transaction or the library's own SqliteReader suspended between batches), releases, crash snapshots, "
    "flushes; the workload is re-executed under a second batch size. One evaluation = one workload execution. Distinct state = (batch size, "
    "pending rows bucket, committed rows bucket, tables, kind of look, busy seen)."
)
ASSUMPTIONS = [
    "type names starting with 'sqlite_' are not generated: SQLite reserves that prefix for internal objects and refuses to create such a table (the write raises, nothing is lost)",
    "schema evolution only gains fields and keeps one type per (table, column); record/field names that differ only by case are not generated (SQLite identifiers are case-insensitive)",
    "values: valid-Unicode text, integers within 64 bits, finite floats, bytes, timezone-aware timestamps; other field types are compared as their text form",
    "the crash snapshot is a byte copy of db + -journal taken between two API calls (process crash model), not an interrupted write(2) inside the engine",
    "while another connection holds a read lock a writer call may raise OperationalError; such a write may have stored its row 0 or 1 times; observers refused with 'database is locked' are skipped, not judged",
    "library connections are opened with timeout=0 (sqlite3 proxy) so that SQLITE_BUSY surfaces at once instead of after 5 real seconds",
]
EXPECTED_PROBES = ["observer-look", "observer-saw-pending-hidden", "crash-snapshot", "snapshot-hot-journal", "busy-commit", "busy-released-retry-ok", "holder-is-sqlitereader",
                   "schema-gained-column", "second-batch-size", "sql-keyword-name", "int64-boundary", "second-writer-session", "descriptors-touched", "with-block-left-by-exception"]  # fmt: skip

TABLE_NAMES = ["t/a", "select", "Mixed/Case_1", "x", "order/by", "group", "a/b/c", "table", "index/from", "sqlite3/journal", "sqlitex/y_", "SQLiteWal/frame", "main/temp",
               "a_b", "T1/t_2", "pragma", "rowid/oid", "u__v"]
FIELD_TYPES = {
    "s": "string", "n": "varint", "f": "float", "b": "bytes", "t": "datetime", "p": "path", "ip": "net.ipaddress", "select": "string", "Order": "varint",
    "fs": "filesize", "from": "string", "pid": "varint", "name": "string", "pidvarintname": "string", "tags": "string[]", "nums": "varint[]", "group": "varint", "Key": "bytes", "flag": "boolean", "u": "uri", "w": "uint32", "class": "float", "values": "datetime",
}  # fmt: skip
SQL_KEYWORDS = {"select", "order/by", "group", "table", "index/from", "from", "Order", "values"}


def budget(tier):
    return 36000 if tier == "quick" else 1500000


def wall_cap(tier):
    return 300 if tier == "quick" else 600


# -- generation ---------------------------------------------------------------------------------
def gen_sql_value(rng, typ):
    if rng.random() < 0.15:
        return None
    if typ == "string":
        return rng.choice(["", "x", "héllo wörld", "quote'\"s", "line\nbreak\r\n", "tab\t;,", "emoji \U0001F600", " lead", "NULL", "0", "007", "1e3", "-1.50", "0x10", "nul\x00in", "\u200b", "\ufeffbom", gen.gen_text(rng, rng.randrange(0, 12))])
    if typ in ("varint", "filesize"):
        v = rng.choice([0, 1, -1, 2**63 - 1, -(2**63), 2**31, 255, 2**53 + 1, rng.randrange(-(10**12), 10**12)])
        return enc_value(abs(v) if typ == "filesize" and v != -(2**63) else (v if typ != "filesize" else 2**63 - 1))
    if typ == "float":
        return enc_value(rng.choice([0.0, 1.0, -1.5, 1e300, 5e-324, 3.141592653589793, 1e15 + 0.5, 2.0**53, -1e-300]))
    if typ == "bytes":
        return enc_value(rng.choice([b"", b"\x00", b"\x00\x01\xff", b"abc", b"0", bytes(rng.getrandbits(8) for _ in range(rng.randrange(0, 20)))]))
    if typ == "datetime":
        return enc_value(gen.gen_datetime(rng))
    if typ == "path":
        return {"$path": ["posix", rng.choice(["/tmp/x", "rel/y", "/a b/c"])]}
    if typ == "net.ipaddress":
        return rng.choice(["1.2.3.4", "2001:db8::1"])
    if typ == "boolean":
        return rng.random() < 0.5
    if typ == "uri":
        return rng.choice(["http://x/y?z=1", "file:///etc"])
    if typ == "uint32":
        return rng.choice([0, 1, 2**32 - 1, 65536])
    if typ == "string[]":
        return {"$l": [rng.choice(["a", "b c", ""]) for _ in range(rng.choice([0, 0, 1, 2]))]}
    if typ == "varint[]":
        return {"$l": [rng.choice([0, 1, -5]) for _ in range(rng.choice([0, 0, 1, 3]))]}
    raise ValueError(typ)


def bulk_plan(rng, huge=False, tier="quick"):
    """A batch size above the writer's default (1000) and more rows than that default, with looks on the way: a
    batch size that gets lost between the caller and the writer shows as a partly visible batch."""
    fields = ["n", "s"] if "n" in FIELD_TYPES and "s" in FIELD_TYPES else sorted(FIELD_TYPES)[:2]
    name = "bulk/rows"
    key = "%s|%s" % (name, ",".join(fields))
    pool = {key: [name, [[FIELD_TYPES[f], f] for f in fields]]}
    batch = rng.choice([1200, 1500])
    ops = []
    n = rng.choice([1050, 1150])
    rbatch = rng.choice([None, 1, 999, 1001, 1049, 100000])
    if huge:
        # more rows than any round-number cap a reader or writer might carry (10 000, 2**14), fetched in batches
        # above and below it; the values are trivial so that the run stays cheap
        n = 10007 if tier == "quick" else rng.choice([10007, 16390])
        batch = rng.choice([20000, 1000])
        rbatch = rng.choice([10001, 16385, 50000, 100000, None])
    looks = sorted(rng.sample(range(1001, n), 2))
    for i in range(n):
        ops.append({"op": "write", "desc": key, "values": [gen_sql_value(rng, FIELD_TYPES[f]) for f in fields]})
        if i + 1 in looks:
            ops.append({"op": "observe", "conn": 0})
    ops.append({"op": "close", "how": "close"})
    return {"batch": batch, "alt_batch": 1000 if batch != 1000 else 3000, "pool": pool, "ops": ops, "mode": "observe", "via": rng.choice(["direct", "uri", "split"]), "dbname": "t.db", "bulk": True, "rbatch": rbatch}


def generate(rng, tier, index):
    if rng.random() < 0.006:
        return bulk_plan(rng, huge=rng.random() < 0.04, tier=tier)
    n_tables = rng.choice([1, 1, 2, 2, 3])
    names = rng.sample(TABLE_NAMES, n_tables)
    fnames = sorted(FIELD_TYPES)
    base = {}
    cols = {}
    for n in names:
        base[n] = rng.sample(fnames, rng.randrange(1, 4))
        cols[n] = list(base[n])
    if rng.random() < 0.15:
        # two type names that differ only in "/" versus "_" (same Python class name) with identical fields
        names = ["tw/in", "tw_in"] + names[:1]
        for n in ("tw/in", "tw_in"):
            base[n] = list(base[names[-1]])
            cols[n] = list(base[n])
    pool = {}
    ops = []
    n_writes = rng.choice([0, 1, 2, 3, 5, 8, 12, 20] if tier == "quick" else [0, 1, 3, 6, 10, 20, 40])
    batch = rng.choice([1, 2, 3, 5, 1000])
    alt = rng.choice([b for b in [1, 2, 3, 5, 1000] if b != batch])
    mode = rng.choice(["observe", "observe", "observe", "hold", "hold", "plain"])
    holding = False
    holder_kind = rng.choice(["raw", "reader", "write"])

    def desc_key(n, fields):
        k = "%s|%s" % (n, ",".join(fields))
        if k not in pool:
            pool[k] = [n, [[FIELD_TYPES[f], f] for f in fields]]
        return k

    twins = None
    if rng.random() < 0.2:
        # two descriptors of one type whose identifiers (name, 32-bit hash) coincide: the hash input is the bare
        # concatenation of field names and type names
        twins = (names[0], ["pid", "name"], ["pidvarintname"])
        assert gen.desc_hash(names[0], [["varint", "pid"], ["string", "name"]]) == gen.desc_hash(names[0], [["string", "pidvarintname"]])
    for i in range(n_writes):
        n = rng.choice(names)
        if twins and n == twins[0] and rng.random() < 0.6:
            fields = list(rng.choice(twins[1:]))
            for f in fields:
                if f not in cols[n]:
                    cols[n].append(f)
            k = desc_key(n, fields)
            ops.append({"op": "write", "desc": k, "values": [gen_sql_value(rng, FIELD_TYPES[f]) for f in fields]})
            if mode != "plain" and rng.random() < 0.4:
                ops.append({"op": "observe", "conn": 0})
            continue
        if rng.random() < 0.25:
            extra = [f for f in fnames if f not in cols[n]]
            if extra:
                cols[n].append(rng.choice(extra))
        r = rng.random()
        fields = list(cols[n]) if r < 0.6 else (list(base[n]) if r < 0.8 else rng.sample(cols[n], rng.randrange(1, len(cols[n]) + 1)))
        k = desc_key(n, fields)
        ops.append({"op": "write", "desc": k, "values": [gen_sql_value(rng, FIELD_TYPES[f]) for f in fields]})
        r = rng.random()
        if mode != "plain":
            if r < 0.45:
                ops.append({"op": "observe", "conn": rng.choice([0, 1])})
            elif r < 0.55:
                ops.append({"op": "snapshot"})
            elif r < 0.62:
                ops.append({"op": "flush"})
            elif r < 0.66 and not holding:
                ops.append({"op": "reopen"})  # the export is continued by a new writer session on the same file
            elif r < 0.72:
                ops.append({"op": "touch"})  # other code looks at the descriptors (identifier, repr, equality) in between
            elif mode == "hold" and r < 0.80:
                if not holding:
                    if holder_kind == "write" and rng.random() < 0.6:
                        ops.append({"op": "flush"})  # a competing writer gets the lock only while nothing is pending
                    ops.append({"op": "hold", "kind": holder_kind})
                    holding = True
                else:
                    ops.append({"op": "release"})
                    holding = False
    if holding and rng.random() < 0.6:
        ops.append({"op": "release"})
    # the export ends by close(), or by leaving a with-block - normally or because the record source raised
    ops.append({"op": "close", "how": rng.choice(["close", "close", "exit", "raise_exit"])})
    # how the writer is constructed and what the database file is called: neither may matter
    via = rng.choice(["direct", "direct", "uri", "split"])
    dbname = rng.choice(["t.db", "t.db", "t%41.db", "what?.db", "part#1.db", "100%25done.db"]) if via == "direct" else rng.choice(["t.db", "t.db", "t%41.db"])
    # the fetch batch of the library's reader used for the read-back: it may not matter either
    rbatch = rng.choice([None, None, 1, 2, 3, 7, 100000])
    return {"batch": batch, "alt_batch": alt, "pool": pool, "ops": ops, "mode": mode, "via": via, "dbname": dbname, "rbatch": rbatch}


# -- expected raw SQL cells (independent of the adapter) ------------------------------------------
def sql_cell(typ, value, rec, fname):
    """What an independent sqlite3 connection should read for this field."""
    if typ.endswith("[]"):
        # an unset typed list defaults to the empty list (stored as the text "[]") - except in record types that have a
        # Python keyword as field name, whose generic constructor keeps None
        v = getattr(rec, fname)
        return None if v is None else str(v)
    if value is None:
        return None
    v = dec_value(value)
    if typ == "datetime":
        if v.tzinfo is None:
            v = v.replace(tzinfo=_dt.timezone.utc)
        return v.isoformat()
    if typ in ("varint", "filesize", "uint32"):
        return int(v)
    if typ == "boolean":
        return int(bool(v))
    if typ == "float":
        return float(v)
    if typ == "bytes":
        return bytes(v)
    if typ == "string":
        return str(v)
    return str(getattr(rec, fname))  # other types: their text form


def _viol(inv, detail, info=None):
    return {"invariant": inv, "detail": detail, "info": info or {}}


class Workload:
    def __init__(self, w, plan, batch, scratch, tag, looks=True):
        import flow.record.adapter.sqlite as SQ

        self.SQ = SQ
        self.w = w
        self.plan = plan
        self.batch = batch
        self.dir = os.path.join(scratch, tag)
        os.makedirs(self.dir)
        self.via = plan.get("via", "direct")
        self.dbname = plan.get("dbname", "t.db")
        self.path = os.path.join(self.dir, self.dbname)
        self.tag = tag
        self.looks = looks
        self.pool = Pool(plan["pool"])
        self.rows = []  # model: (table, {col: cell}, optional?)
        self.commit_points = {0}
        self.count = 0  # records inserted so far (the adapter's own counter semantics)
        self.seen = set()
        self.observers = {}
        self.holder = None
        self.busy = False  # a writer call has raised OperationalError in this run
        self.viols = []
        self.last_visible = 0
        self.columns = collections.OrderedDict()  # table -> columns required by accepted writes
        self.maybe_columns = collections.OrderedDict()  # table -> columns only refused writes asked for (may exist)
        self.closed = False
        self.refused = 0
        self.clean_refused = 0  # INSERTs refused while another connection held the write lock: nothing stored, caller told
        self.skipped_obs = 0

    def add(self, v):
        if not any(x["invariant"] == v["invariant"] for x in self.viols):
            v = dict(v)
            v["detail"] = "[batch_size=%d] %s" % (self.batch, v["detail"])
            self.viols.append(v)

    # -- the writer ---------------------------------------------------------------------------
    def make_writer(self):
        """The three documented ways to a SQLite writer with a batch size."""
        if self.via == "uri":
            from flow.record import RecordWriter

            self.w.probe("writer-via-uri")
            return RecordWriter("sqlite://%s?batch_size=%d" % (self.path, self.batch))
        if self.via == "split":
            from flow.record import RecordWriter

            # what `rdump --split N -w sqlite://...` builds; the limit is never reached here, so there is one part
            self.w.probe("writer-via-split")
            base = os.path.join(self.dir, self.dbname)
            wr = RecordWriter("split+sqlite://%s?count=1000000&batch_size=%d" % (base, self.batch))
            parts = sorted(f for f in os.listdir(self.dir) if f.endswith(".db"))
            if len(parts) == 1:
                self.path = os.path.join(self.dir, parts[0])
            return wr
        return self.SQ.SqliteWriter(self.path, batch_size=self.batch)

    def run(self):
        w = self.w
        self.writer = self.make_writer()
        w.keep.append(self.writer)
        for oi, op in enumerate(self.plan["ops"]):
            k = op["op"]
            if k == "write":
                self.do_write(op)
            elif self.closed:
                continue
            elif k == "flush":
                self.call("flush", self.writer.flush, commits=True)
            elif k == "touch":
                for key in sorted(self.pool.desc):
                    d = self.pool.desc[key]
                    _ = (d.identifier, repr(d), hash(d), d == d)
                w.probe("descriptors-touched")
            elif k == "reopen":
                if self.holder is None and not self.busy:
                    if self.call("close", self.writer.close, commits=True):
                        self.writer = self.make_writer()
                        w.keep.append(self.writer)
                        self.seen = set()
                        self.count = 0
                        w.probe("second-writer-session")
                        w.log(self.tag, "reopen")
            elif k == "close":
                self.do_close(op.get("how", "close"))
            elif not self.looks:
                continue
            elif k == "observe":
                self.observe(op["conn"])
            elif k == "snapshot":
                self.snapshot()
            elif k == "hold":
                self.hold(op.get("kind", "raw"))
            elif k == "release":
                self.release()
            w.state(self.batch, min(len(self.rows) - max(self.commit_points), 3), min(max(self.commit_points), 4), len(self.columns), k, "busy" if self.busy else "")
        if not self.closed:
            self.do_close()
        for c in self.observers.values():
            c.close()

    def call(self, what, fn, commits=False):
        try:
            fn()
            self.w.log(self.tag, what, "-> ok")
            if commits:
                self.commit_points.add(len(self.rows))
            return True
        except sqlite3.OperationalError as e:
            self.w.log(self.tag, what, "-> OperationalError")
            if self.holder is None or "locked" not in str(e):
                self.add(_viol("C18.writer-raises", "%s raised %s while no other connection holds a lock" % (what, e)))
            else:
                self.w.probe("busy-commit")
            self.busy = True
            return False

    def do_write(self, op):
        if self.closed:
            return  # writes after close are outside the property
        name, fields = self.pool.fields(op["desc"])
        rec = self.pool.make(op["desc"], op["values"])
        cells = collections.OrderedDict()
        for (typ, fname), val in zip(fields, op["values"]):
            cells[fname] = sql_cell(typ, val, rec, fname)
            if typ == "varint" and cells[fname] in (2**63 - 1, -(2**63)):
                self.w.probe("int64-boundary")
        cells["_source"] = None
        cells["_classification"] = None
        cells["_generated"] = rec._generated.isoformat()
        cells["_version"] = 1
        dkey = (name, fields)
        new_desc = dkey not in self.seen
        before = len(self.rows)
        write_locked = self.holder is not None and self.holder[0] == "write"
        if write_locked and new_desc:
            # a new type needs DDL; what a writer owes its caller when DDL is refused is not part of the property
            self.w.log(self.tag, "write", op["desc"], "-> skipped (new type while a competing writer holds the lock)")
            self.clean_refused += 1  # not performed: the second batch size would not be comparable
            return
        try:
            self.writer.write(rec)
            ok = True
            self.w.log(self.tag, "write", op["desc"], "-> ok")
        except sqlite3.OperationalError as e:
            if write_locked and "locked" in str(e):
                # the INSERT itself was refused (the other connection holds RESERVED): the statement stored nothing,
                # no commit was attempted, the caller was told.  The record is simply not written; batches go on
                # being counted in records that were.
                self.clean_refused += 1
                self.w.probe("insert-refused-by-write-lock")
                self.w.log(self.tag, "write", op["desc"], "-> OperationalError (insert refused, nothing stored)")
                return
            ok = False
            self.busy = True
            self.w.log(self.tag, "write", op["desc"], "-> OperationalError")
            if self.holder is None or "locked" not in str(e):
                self.add(_viol("C18.writer-raises", "write raised %s while no other connection holds a lock" % (e,)))
            else:
                self.w.probe("busy-commit")
        except Exception as e:  # noqa: BLE001
            self.refused += 1
            self.w.log(self.tag, "write", op["desc"], "->", type(e).__name__)
            self.add(_viol("C18.writer-raises", "write of a mappable record raised %s: %s" % (type(e).__name__, short(str(e), 120))))
            return
        if name in SQL_KEYWORDS or any(f in SQL_KEYWORDS for _, f in fields):
            self.w.probe("sql-keyword-name")
        # a refused write may or may not have evolved the schema before it failed: its table and columns are allowed,
        # not required (an accepted write later makes them required)
        cols = self.columns.setdefault(name, []) if ok else self.maybe_columns.setdefault(name, [])
        for _, f in fields:
            if f not in cols:
                if cols and not new_desc:
                    pass
                cols.append(f)
                if len(self.seen) and any(n == name for n, _ in self.seen) and new_desc:
                    self.w.probe("schema-gained-column")
        self.seen.add(dkey)
        if ok:
            if new_desc and not self.busy:
                self.commit_points.add(before)  # everything before the first record of a new descriptor
            self.rows.append((name, cells, False))
            self.count += 1
            if self.count % self.batch == 0 and not self.busy:
                self.commit_points.add(len(self.rows))
        else:
            # refused with SQLITE_BUSY: the row may or may not be part of the open transaction
            self.rows.append((name, cells, True))

    def do_close(self, how="close"):
        if self.closed:
            return
        if how == "exit":
            fn = lambda: self.writer.__exit__(None, None, None)  # noqa: E731
        elif how == "raise_exit":
            exc = RuntimeError("the record source failed")
            fn = lambda: self.writer.__exit__(RuntimeError, exc, None)  # noqa: E731
            self.w.probe("with-block-left-by-exception")
        else:
            fn = self.writer.close
        ok = self.call("close", fn, commits=True)
        if not ok and self.holder is not None:
            # liveness once the fault stops: release, then one retry must succeed
            self.release()
            ok = self.call("close(retry)", self.writer.close, commits=True)
            if ok:
                self.w.probe("busy-released-retry-ok")
            else:
                self.add(_viol("C18.busy-liveness", "close() still fails after the lock holder released its lock"))
        elif not ok:
            pass
        self.closed = True
        if self.holder is not None:
            self.release()
        if ok:
            self.final_checks()

    # -- observers ----------------------------------------------------------------------------
    def _conn(self, i):
        if i not in self.observers:
            self.observers[i] = sqlite3.connect(self.path, timeout=0, isolation_level=None)
        return self.observers[i]

    def read_all(self, con):
        out = collections.OrderedDict()
        tables = [r[0] for r in con.execute("SELECT name FROM sqlite_master WHERE type='table' ORDER BY rowid").fetchall()]
        for t in tables:
            q = t.replace('"', '""')
            cols = [r[1] for r in con.execute('PRAGMA table_info("%s")' % q).fetchall()]
            rows = con.execute('SELECT * FROM "%s" ORDER BY rowid' % q).fetchall()
            out[t] = (cols, rows)
        return out

    def judge_visible(self, content, who):
        """content: table -> (cols, rows).  Checks atomic visibility against the model."""
        total = sum(len(rows) for _, rows in content.values())
        if not self.busy:
            if total not in self.commit_points:
                self.add(_viol("C18.partial-batch-visible", "%s sees %d rows; the commit points so far are %s (%d written, batch size %d)" % (who, total, sorted(self.commit_points), len(self.rows), self.batch),
                               {"visible": total, "written": len(self.rows)}))  # fmt: skip
                return
            if total < self.last_visible and who.startswith("observer"):
                self.add(_viol("C18.visibility-regressed", "%s sees %d rows after %d had been visible" % (who, total, self.last_visible)))
            if who.startswith("observer"):
                self.last_visible = max(self.last_visible, total)
            if total < len(self.rows):
                self.w.probe("observer-saw-pending-hidden")
            self.compare_prefix(content, total, who)
        else:
            self.compare_relaxed(content, who, final=False)

    def compare_prefix(self, content, total, who):
        want = collections.OrderedDict()
        for name, cells, _ in self.rows[:total]:
            want.setdefault(name, []).append(cells)
        for t, (cols, rows) in content.items():
            exp = want.get(t, [])
            if len(rows) != len(exp):
                self.add(_viol("C18.partial-batch-visible", "%s: table %r shows %d rows, the first %d written records hold %d of that type" % (who, t, len(rows), total, len(exp))))
                return
            for i, (row, cells) in enumerate(zip(rows, exp)):
                got = dict(zip(cols, row))
                for c in cols:
                    e = cells.get(c)
                    g = got[c]
                    if not _cell_eq(g, e):
                        self.add(_viol("C18.values", "%s: table %r row %d column %r holds %r, written %r" % (who, t, i, c, g, e), {"col": c}))
                        return
                for c in cells:
                    if c not in got:
                        self.add(_viol("C18.shape", "%s: table %r has no column %r (columns %r)" % (who, t, c, cols)))
                        return

    def compare_relaxed(self, content, who, final):
        """After SQLITE_BUSY: rows of refused writes are optional (0 or 1 copy); everything else keeps
        order, nothing unwritten appears, nothing appears twice.  When ``final``: all non-optional
        rows must be there."""
        per = collections.OrderedDict()
        for name, cells, optional in self.rows:
            per.setdefault(name, []).append((cells, optional))
        for t, (cols, rows) in content.items():
            model = per.get(t, [])
            gots = [dict(zip(cols, row)) for row in rows]

            def same(g, cells):
                return all(_cell_eq(g.get(c), cells.get(c)) for c in cols)

            # can rows[i:] be explained by model[j:]?  every stored row is some model row, in order;
            # a model row may be absent when it is optional (its write raised) or, before close, uncommitted
            n, m = len(gots), len(model)
            ok = [[False] * (m + 2) for _ in range(n + 2)]
            for i in range(n, -1, -1):
                for j in range(m, -1, -1):
                    if i == n:
                        ok[i][j] = all(model[k][1] or not final for k in range(j, m))
                    elif j == m:
                        ok[i][j] = False
                    else:
                        r = False
                        if same(gots[i], model[j][0]):
                            r = ok[i + 1][j + 1]
                        if not r and (model[j][1] or not final):
                            r = ok[i][j + 1]
                        ok[i][j] = r
            if not ok[0][0]:
                # say which kind of failure it is
                stored = [next((k for k in range(m) if same(g, model[k][0])), None) for g in gots]
                if any(x is None for x in stored):
                    i = stored.index(None)
                    self.add(_viol("C18.duplicate-row", "%s: table %r row %d %s was never written" % (who, t, i, short(rows[i], 100))))
                elif len(gots) > m or len(set(stored)) < len([x for x in stored]) and len(gots) > len(set(map(str, gots))) - 1 and n > sum(1 for _ in model):
                    self.add(_viol("C18.duplicate-row", "%s: table %r holds %d rows, only %d were written" % (who, t, n, m)))
                elif final:
                    self.add(_viol("C18.close-not-durable", "%s: table %r (%d rows) does not contain every acknowledged row in write order (%d written, %d of them refused with SQLITE_BUSY)" % (
                        who, t, n, m, sum(1 for _, o in model if o))))  # fmt: skip
                else:
                    self.add(_viol("C18.duplicate-row", "%s: table %r (%d rows) is not an in-order selection of the %d rows written" % (who, t, n, m)))
        if final:
            for t in per:
                if t not in content and any(not o for _, o in per[t]):
                    self.add(_viol("C18.close-not-durable", "%s: table %r does not exist after close" % (who, t)))

    def observe(self, i):
        if not os.path.exists(self.path):
            return
        con = self._conn(i)
        try:
            content = self.read_all(con)
        except sqlite3.OperationalError as e:
            self.skipped_obs += 1
            self.w.log(self.tag, "observe", i, "-> refused")
            self.w.stats["skipped_observations"] += 1
            return
        self.w.probe("observer-look")
        self.w.log(self.tag, "observe", i, "rows=%d" % sum(len(r) for _, r in content.values()))
        self.judge_visible(content, "observer %d" % i)

    def snapshot(self):
        if not os.path.exists(self.path):
            return
        d = os.path.join(self.dir, "snap")
        shutil.rmtree(d, ignore_errors=True)
        os.makedirs(d)
        shutil.copyfile(self.path, os.path.join(d, "t.db"))
        hot = os.path.exists(self.path + "-journal")
        if hot:
            shutil.copyfile(self.path + "-journal", os.path.join(d, "t.db-journal"))
            if os.path.getsize(self.path + "-journal") > 0:
                self.w.probe("snapshot-hot-journal")
        self.w.probe("crash-snapshot")
        self.w.fault("crash_snapshot")
        try:
            con = sqlite3.connect(os.path.join(d, "t.db"), timeout=0)
            content = self.read_all(con)
            con.close()
        except sqlite3.DatabaseError as e:
            self.add(_viol("C18.partial-batch-visible", "crash snapshot (db + journal copied between two calls) cannot be opened: %s" % (e,)))
            return
        finally:
            shutil.rmtree(d, ignore_errors=True)
        self.w.log(self.tag, "snapshot", "rows=%d" % sum(len(r) for _, r in content.values()))
        self.judge_visible(content, "crash snapshot")

    def hold(self, kind):
        if self.holder is not None or not os.path.exists(self.path):
            return
        if kind == "reader":
            try:
                rd = self.SQ.SqliteReader(self.path, batch_size=1)
                it = iter(rd)
                first = next(it, None)
            except sqlite3.OperationalError:
                return
            if first is None:
                return
            self.holder = ("reader", rd, it)
            self.w.probe("holder-is-sqlitereader")
        elif kind == "write":
            # a competing writer: BEGIN IMMEDIATE succeeds only while our writer has nothing pending
            con = sqlite3.connect(self.path, timeout=0, isolation_level=None)
            try:
                con.execute("BEGIN IMMEDIATE")
            except sqlite3.OperationalError:
                con.close()
                self.w.log(self.tag, "hold", kind, "-> refused (writer has pending rows)")
                return
            self.holder = ("write", con, None)
            self.w.probe("holder-is-competing-writer")
        else:
            con = sqlite3.connect(self.path, timeout=0, isolation_level=None)
            try:
                con.execute("BEGIN")
                con.execute("SELECT count(*) FROM sqlite_master").fetchall()
            except sqlite3.OperationalError:
                con.close()
                return
            self.holder = ("raw", con, None)
        self.w.fault("observer_holds_lock")
        self.w.log(self.tag, "hold", kind)

    def release(self):
        if self.holder is None:
            return
        kind, a, b = self.holder
        try:
            if kind == "reader":
                for _ in b:
                    pass
                a.con.close()
            else:
                a.execute("ROLLBACK")
                a.close()
        except sqlite3.Error:
            pass
        self.holder = None
        self.w.log(self.tag, "release")

    # -- after close ----------------------------------------------------------------------------
    def final_checks(self):
        con = sqlite3.connect(self.path, timeout=0)
        try:
            content = self.read_all(con)
        finally:
            con.close()
        self.final_content = content
        total = sum(len(rows) for _, rows in content.values())
        if not self.busy:
            if total != len(self.rows):
                self.add(_viol("C18.close-not-durable", "after close() an independent connection sees %d rows, %d were written" % (total, len(self.rows)), {"visible": total, "written": len(self.rows)}))
            else:
                self.compare_prefix(content, total, "after close")
        else:
            self.compare_relaxed(content, "after close", final=True)
        # shape: one table per type name, columns = union of fields + reserved
        want_tables = list(self.columns)
        may_tables = set(self.maybe_columns)
        if not (set(want_tables) <= set(content) <= set(want_tables) | may_tables):
            self.add(_viol("C18.shape", "tables %r, expected one per record type name %r" % (sorted(content), sorted(want_tables))))
        for t in content:
            cols = self.columns.get(t, [])
            have = content[t][0]
            want = set(cols) | {"_source", "_classification", "_generated", "_version"}
            allowed = want | set(self.maybe_columns.get(t, []))
            if not (want <= set(have) <= allowed) or len(have) != len(set(have)):
                self.add(_viol("C18.shape", "table %r has columns %r, expected the union of its fields %r plus the reserved ones" % (t, have, cols)))
        # the library's reader
        try:
            back = collections.OrderedDict()
            rbatch = self.plan.get("rbatch")
            if rbatch is None:
                rd = self.SQ.SqliteReader(self.path)
            elif rbatch % 2 or self.dbname != "t.db":
                rd = self.SQ.SqliteReader(self.path, batch_size=rbatch)
            else:
                from flow.record import RecordReader

                rd = RecordReader("sqlite://%s?batch_size=%d" % (self.path, rbatch))
                self.w.probe("reader-via-uri")
            if rbatch is not None and rbatch > 10000 and len(self.rows) > 10000:
                self.w.probe("huge-table-huge-fetch")
            for r in rd:
                back.setdefault(r._desc.name, []).append(r)
            rd.con.close()
        except Exception as e:  # noqa: BLE001
            self.add(_viol("C18.values", "SqliteReader raised %s: %s" % (type(e).__name__, short(str(e), 140))))
            return
        if self.busy:
            return
        # two live iterators on one reader object (small fetch batches): neither may lose rows to the other
        try:
            rd2 = self.SQ.SqliteReader(self.path, batch_size=1 + len(self.rows) % 2)
            it1 = iter(rd2)
            head = [r for _, r in zip(range(1), it1)]
            full = sum(1 for _ in rd2)
            rest = sum(1 for _ in it1)
            rd2.con.close()
            total = sum(len(v) for v in back.values())
            if full != total or len(head) + rest != total:
                self.add(_viol("C18.values", "two live iterators on one SqliteReader (batch_size 1 or 2): the inner pass yields %d and the outer %d of %d records" % (full, len(head) + rest, total)))
        except Exception as e:  # noqa: BLE001
            self.add(_viol("C18.values", "two live iterators on one SqliteReader raised %s: %s" % (type(e).__name__, short(str(e), 120))))
        per = collections.OrderedDict()
        for name, cells, _ in self.rows:
            per.setdefault(name, []).append(cells)
        for t, exp in per.items():
            got = back.get(t, [])
            if len(got) != len(exp):
                self.add(_viol("C18.values", "SqliteReader returns %d records of type %r, %d were written" % (len(got), t, len(exp))))
                continue
            ftypes = {}
            for key, (n, fields) in self.plan["pool"].items():
                if n == t:
                    for ty, f in fields:
                        if f in self.columns.get(t, []):  # only columns some written descriptor had
                            ftypes[f] = ty
            for i, (r, cells) in enumerate(zip(got, exp)):
                for f, ty in ftypes.items():
                    if not hasattr(r, f):
                        self.add(_viol("C18.values", "record %d of %r read back has no field %r" % (i, t, f)))
                        break
                    g = getattr(r, f)
                    e = cells.get(f)
                    if not _reader_eq(ty, g, e):
                        self.add(_viol("C18.values", "SqliteReader: %r record %d field %r (%s) reads %r, written %r" % (t, i, f, ty, g, e), {"type": ty}))
                        break


def _cell_eq(g, e):
    if isinstance(e, float) and isinstance(g, (int, float)) and not isinstance(g, bool):
        return float(g) == e
    if type(g) is not type(e) and not (g is None or e is None):
        return False
    return g == e


def _reader_eq(ty, g, e):
    if e is None:
        return g is None
    if g is None:
        return False
    if ty == "datetime":
        want = _dt.datetime.fromisoformat(e)
        return isinstance(g, _dt.datetime) and g == want and g.utcoffset() == want.utcoffset()
    if ty in ("varint", "filesize", "uint32"):
        return int(g) == e and not isinstance(g, (float, str))
    if ty == "float":
        return isinstance(g, float) and g == e
    if ty == "bytes":
        return isinstance(g, bytes) and bytes(g) == e
    if ty == "boolean":
        return int(g) == e
    if ty == "string":
        return isinstance(g, str) and str(g) == e
    return str(g) == e  # other types: their text form


def execute(plan, keep_log=False):
    import flow.record.adapter.sqlite as SQ

    scratch = tempfile.mkdtemp(prefix="simfr-c18-", dir="/dev/shm" if os.path.isdir("/dev/shm") else None)
    real = SQ.sqlite3
    px = types.ModuleType("sqlite3_proxy")
    px.__dict__.update({k: getattr(sqlite3, k) for k in dir(sqlite3) if not k.startswith("__")})
    px.connect = lambda path, **kw: sqlite3.connect(path, **{"timeout": 0, **kw})
    viols = []
    try:
        SQ.sqlite3 = px
        with World(keep_log=keep_log) as w:
            a = Workload(w, plan, plan["batch"], scratch, "A")
            a.run()
            viols += a.viols
            evals = 1
            if not a.busy and not a.clean_refused and a.closed and hasattr(a, "final_content"):
                b = Workload(w, plan, plan["alt_batch"], scratch, "B", looks=False)
                b.run()
                evals += 1
                w.probe("second-batch-size")
                for v in b.viols:
                    if not any(x["invariant"] == v["invariant"] for x in viols):
                        viols.append(v)
                if hasattr(b, "final_content") and _norm_content(a.final_content) != _norm_content(b.final_content):
                    viols.append(_viol("C18.batch-dependence", "stored content differs between batch_size=%d and batch_size=%d: %s vs %s" % (
                        plan["batch"], plan["alt_batch"], short(_norm_content(a.final_content), 200), short(_norm_content(b.final_content), 200))))  # fmt: skip
            w.stats["refused_ops"] += a.refused
            stats = collections.Counter(w.stats)
            states = set(w.states)
            digest = w.digest()
            trace = w.trace
    finally:
        SQ.sqlite3 = real
        shutil.rmtree(scratch, ignore_errors=True)
    sample = {"batch": plan["batch"], "alt_batch": plan["alt_batch"], "mode": plan["mode"], "ops": [o["op"] + (":" + o["desc"] if "desc" in o else "") for o in plan["ops"]][:16]}
    return {"violations": viols, "digest": digest, "stats": stats, "states": states, "evals": evals, "sim_us": 0, "trace": trace, "sample": sample if len(plan["ops"]) > 4 else None}


def _norm_content(content):
    return sorted((t, tuple(cols), tuple(rows)) for t, (cols, rows) in content.items())


# -- minimisation -------------------------------------------------------------------------------------
def fix_plan(plan):
    p = dict(plan)
    ops = list(p["ops"])
    if not ops or ops[-1]["op"] != "close":
        ops.append({"op": "close"})
    p["ops"] = ops
    return p


def shrink_candidates(plan):
    import copy

    for i, o in enumerate(plan["ops"]):
        if o["op"] == "write":
            for j, v in enumerate(o["values"]):
                if v is not None:
                    c = copy.deepcopy(plan)
                    c["ops"][i]["values"][j] = None
                    yield c
    used = set(o["desc"] for o in plan["ops"] if o["op"] == "write")
    for k in list(plan["pool"]):
        if k not in used:
            c = copy.deepcopy(plan)
            del c["pool"][k]
            yield c
            break


KNOWN = {}


def mutate(plan, rng):
    from ..driver import mutate_ops

    p = mutate_ops(plan, rng, fix_plan)
    if rng.random() < 0.3:
        p["batch"] = rng.choice([1, 2, 3, 5, 1000])
        p["alt_batch"] = rng.choice([b for b in [1, 2, 3, 5, 1000] if b != p["batch"]])
    # keep hold/release balanced enough: a trailing close releases anyway
    return p
