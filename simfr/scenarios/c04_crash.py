"""C04 - a damaged stream yields an intact prefix, never altered records.

One writer task produces a record stream through a chosen I/O stack on a simulated raw device;
the simulator then (a) ends the file at every byte offset, (b) makes the n-th raw write fail, be
torn or be short, (c) crashes the writer after every API call, and reads back what is on the
simulated disk through several reader stacks and delivery schedules.  See DESIGN.md 5.2.
"""

import gc
import gzip
import io
import zlib

from .. import gen, refcodec
from ..observe import obs_record, short
from ..plan import Pool, enc_value
from ..simfs import HandlePlan
from ..world import World

NAME = "c04_crash"
PROP = "C04"
LEVEL = "fault_enumeration"
RULE = (
    "each run generates one record stream (seeded descriptor pool, record sequence, I/O stack, buffer sizes, flush points) and "
    "enumerates its fault space: every byte offset at which the device content can end (all offsets up to the tier's cap, else frame "
    "boundaries +-4 plus a seeded sample), every raw write call failing / torn / short, or a crash after every API call; one evaluation = "
    "one (damaged device content, reader stack, delivery schedule) read judged against the acknowledged-frame model. A state is distinct "
    "by (mode, writer stack, reader stack, kind of frame hit, phase within the frame, outcome class, records yielded bucket)."
)
ASSUMPTIONS = [
    "crash model is process crash: bytes handed to the raw device survive, buffered bytes do not; power-loss reordering is not modelled",
    "a short write that returns normally is injected only beneath a real io.BufferedWriter (io contract obliges it to retry)",
    "torn-then-error writes only with the fail-stop policy; under the continue policy a failing raw write persists nothing",
    "bit flips are not injected (undetectable without checksums; the property names cuts and failed/short writes)",
    "readers handed a file object get a first raw read of >= 64 bytes so that C11's single-shot-peek finding is not re-reported here",
    "value domain restricted to types whose round-trip identity holds on the pinned tree (C01 is not decided here)",
    "descriptor pairs with coinciding identifiers are generated for every mode except the continue policy (a refused descriptor frame of one twin cannot be noticed by any reader of this format)",
]
EXPECTED_PROBES = [
    "cut-in-header-len", "cut-in-header-body", "cut-in-desc-len", "cut-in-desc-body", "cut-in-rec-len", "cut-in-rec-body",
    "cut-on-boundary", "gz-cut-in-gzip-header", "gz-cut-in-deflate", "gz-cut-in-trailer", "crash-with-nonempty-buffer",
    "continue-lost-descriptor", "read-error-between-frames", "nested-record-stream", "two-faults-in-one-run", "iteration-resumed",
    "two-writers-one-file-object",
]  # fmt: skip

TYPES = ["string", "varint", "uint32", "boolean", "float", "bytes", "datetime", "string[]", "varint[]", "path", "net.ipaddress", "digest"]
# (stringlist only occurs through the identifier-twin pair)
WRITER_STACKS = ["raw", "buf", "gz", "gzbuf", "path", "pathgz"]
READER_STACKS = ["bytesio", "bufreader", "fileobj", "path", "neutral", "rawobj"]


def budget(tier):
    return 1200 if tier == "quick" else 40000


def wall_cap(tier):
    return 240 if tier == "quick" else 600


# -- generation ---------------------------------------------------------------------------------
def gen_pool(rng, big, allow_identifier_twins=True):
    pool = {}
    n = rng.choice([1, 1, 2, 2, 3, 4])
    for i in range(n):
        name = rng.choice(gen.RECORD_NAMES[:5])
        pool["D%d" % i] = [name, gen.gen_fields(rng, TYPES, 1, 4)]
    if rng.random() < 0.4:
        # a second type under the name of D0: same fields in another order, or one more / one fewer field
        name, fields = pool["D0"]
        r = rng.random()
        if r < 0.4 and len(fields) > 1:
            f2 = list(reversed(fields))
        elif r < 0.7:
            f2 = fields + [[rng.choice(["string", "varint"]), "zz"]]
        else:
            f2 = [[t, n] for t, n in fields[:-1]] + [["string", fields[-1][1]]]
        if f2 != fields:
            pool["D9"] = [name, f2]
    elif rng.random() < 0.25 and allow_identifier_twins:
        # ... or an identifier twin: another descriptor under the same (name, 32-bit hash)
        nm, fa, fb = gen.concat_ambiguity_pairs()[rng.randrange(2)]
        pool["D0"] = [nm, fa]
        pool["D9"] = [nm, fb]
    if rng.random() < 0.15:
        pool["Z0"] = [rng.choice(["z/marker", pool["D0"][0]]), []]  # a legal type without fields
    if rng.random() < 0.35:
        # a holder whose child type occurs only nested
        pool["C0"] = ["nested/child", gen.gen_fields(rng, ["string", "varint", "boolean"], 1, 2)]
        pool["H0"] = ["nested/holder", [["string", "tag"], ["record", "child"]]]
        if rng.random() < 0.5:
            pool["H1"] = ["nested/list", [["record[]", "children"], ["varint", "n"]]]
    return pool


def gen_values(rng, pool, key, big):
    name, fields = pool[key]

    def nested(typ):
        if typ == "record":
            return {"$rec": ["C0", gen.gen_record_values(rng, pool["C0"][1], big=False)]}
        return [{"$rec": ["C0", gen.gen_record_values(rng, pool["C0"][1], big=False)]} for _ in range(rng.choice([0, 1, 2]))]

    return gen.gen_record_values(rng, fields, big=big, nested=nested)


def generate(rng, tier, index):
    thorough = tier != "quick"
    big = rng.random() < (0.25 if thorough else 0.08)
    mode = rng.choice(["cuts", "cuts", "cuts", "write_faults", "write_faults", "write_faults", "crash", "faultfree"])
    layer = "raw"
    if mode == "write_faults":
        stack = rng.choice(["raw", "buf", "buf", "gz", "gzbuf", "path", "pathgz"])
        if stack in ("raw", "buf", "gz", "gzbuf") and rng.random() < 0.4:
            layer = "fp"  # faults at the file object the stream writer itself calls
        # beneath CPython's GzipFile only fail-stop: its retry after a failed write re-compresses the
        # same data, which is the standard library's business, not the property's
        if layer == "fp" or stack in ("raw", "buf"):
            policy = rng.choice(["fail-stop", "continue"])
        else:
            policy = "fail-stop"
    else:
        stack = rng.choice(WRITER_STACKS)
        policy = "fail-stop"
    # identifier twins are kept out of continue-policy runs: when the descriptor frame of one twin is refused and
    # the caller goes on, the reader cannot tell its records from the other twin's (a limit of 32-bit identifiers)
    two_writers = stack in ("raw", "buf", "gz", "gzbuf") and rng.random() < 0.2
    # ... and out of runs with two writers appending to one file object: each writer only knows what it announced
    # itself, so two interleaved writers cannot keep "the latest definition under this identifier" straight
    pool = gen_pool(rng, big, allow_identifier_twins=(policy != "continue" and not two_writers))
    keys = [k for k in sorted(pool) if k != "C0"]
    n_rec = rng.choice([0, 1, 2, 3, 4, 6, 9, 14] if not thorough else [0, 1, 2, 3, 5, 8, 13, 21, 40])
    flush_every = rng.choice([0, 0, 1, 2, 3])
    ops = []
    if rng.random() < 0.15:
        ops.append({"op": "flush"})
    twin = "D9" in pool and rng.random() < 0.7
    for i in range(n_rec):
        k = rng.choice(["D0", "D9"]) if twin and rng.random() < 0.8 else rng.choice(keys)
        ops.append({"op": "write", "desc": k, "values": gen_values(rng, pool, k, big), "w": rng.choice([0, 0, 1])})
        if flush_every and (i + 1) % flush_every == 0:
            ops.append({"op": rng.choice(["fpflush", "fpflush", "flush"])})
    if rng.random() < 0.06 and mode in ("cuts", "crash", "faultfree"):
        # two equally sized frames of 64 KiB or more (a file stored in chunks): cuts inside them are sampled
        size = rng.choice([65536, 66000, 70001])
        pool["L0"] = ["big/chunk", [["varint", "n"], ["bytes", "data"]]]
        for j in range(2):
            blob = bytes([65 + j]) * size
            ops.append({"op": "write", "desc": "L0", "values": [j, {"$b": blob.hex()}], "w": 0})
    if mode == "faultfree" and rng.random() < 0.08:
        # one record of more than a MiB (a file carried as one bytes field)
        pool["L1"] = ["big/file", [["varint", "n"], ["bytes", "data"]]]
        ops.insert(rng.randrange(len(ops) + 1), {"op": "write", "desc": "L1", "values": [7, {"$b": (b"\x5a" * rng.choice([(1 << 20) + 100, 3 << 20])).hex()}], "w": 0})
    if rng.random() < 0.85 or mode == "faultfree":
        if rng.random() < 0.5:
            ops.append({"op": "flush"})
        ops.append({"op": "close"})
    gzreader = stack in ("gz", "gzbuf", "pathgz")
    reader = rng.choice(READER_STACKS)
    delivery = gen_delivery(rng, reader)
    cfg = {
        "stack": stack,
        "policy": policy,
        "buffer_size": rng.choice([1, 3, 4, 5, 16, 64, 512, 8192, 65536]),
        "reader": reader,
        "read_buffer_size": rng.choice([1, 2, 7, 16, 64, 8192]),
        "delivery": delivery,
        "variance_reader": rng.choice(["bufreader", "rawobj", "bytesio", "path"]),
        "variance_delivery": rng.choice([{"sizes": [64], "tail": 1}, {"sizes": [100, 2], "tail": 1}, {"sizes": [64, 1, 1, 5], "tail": 3}]),
        "variance_mod": rng.choice([3, 5, 8]),
        "salt": rng.randrange(0, 1 << 16),
        "gz": gzreader,
        "fault_layer": layer,
        "resume": rng.random() < 0.2,
        "two_writers": two_writers,
        # a selector that every record matches: filtering must not change how damage is treated
        "selector": rng.choice([None, None, None, "r._version == 1", "not r.no_such_field_zz"]),
    }
    cap = (2048 if not thorough else 65536)
    plan = {"config": cfg, "pool": pool, "ops": ops, "mode": mode, "faults": "enumerate", "cap": cap,
            "max_evals": 700 if not thorough else 5000, "sample_seed": rng.randrange(0, 1 << 30)}  # fmt: skip
    return plan


def gen_delivery(rng, reader):
    first = [rng.choice([64, 100, 4096])] if reader in ("fileobj", "neutral", "rawobj") else []
    kind = rng.choice(["whole", "one", "small", "mixed"])
    if kind == "whole":
        return {"sizes": first, "tail": "whole"}
    if kind == "one":
        return {"sizes": first, "tail": 1}
    if kind == "small":
        return {"sizes": first, "tail": rng.choice([2, 3, 5, 7])}
    return {"sizes": first + [rng.choice([1, 2, 3, 4, 5, 9, 17, 40]) for _ in range(24)], "tail": rng.choice([1, 4, "whole"])}


# -- writer side --------------------------------------------------------------------------------
class Tap:
    """Transparent recorder between RecordStreamWriter and the file object it writes to."""

    def __init__(self, inner, fail_at=None, world=None):
        self._inner = inner
        self.calls = []  # (bytes, returned?)
        self.ctx = None
        self.fail_at = fail_at or {}
        self._world = world

    def write(self, b):
        b = bytes(b)
        entry = [b, False, self.ctx]
        idx = len(self.calls)
        self.calls.append(entry)
        if idx in self.fail_at:
            # the writer's own file object refuses this call: nothing is passed down
            import errno as _errno
            import os as _os

            code = getattr(_errno, self.fail_at[idx])
            self._world.fault("fp_write_error")
            self._world.log("fp", "write#%d" % idx, "%d bytes -> OSError(%s)" % (len(b), self.fail_at[idx]))
            raise OSError(code, _os.strerror(code) + " (injected at the writer's file object)")
        r = self._inner.write(b)
        entry[1] = True
        return r

    def flush(self):
        return self._inner.flush()

    def close(self):
        return self._inner.close()

    def __getattr__(self, name):
        return getattr(self._inner, name)

    def frames(self):
        """Acknowledged frames: every write call that carries a part of the frame returned.  -> [(bytes, ctx)]

        The calls are read as one byte stream (length prefix, body), however the writer chooses to split a
        frame over calls (length and body separately, as one call, or several frames per call).  A refused
        call ends the frame it belongs to: what was accepted of that frame is dropped, the next call starts afresh.
        """
        out = []
        pend = b""
        for b, ok, ctx in self.calls:
            if not ok:
                pend = b""
                continue
            pend += b
            while len(pend) >= 4:
                size = int.from_bytes(pend[:4], "big")
                if len(pend) < 4 + size:
                    break
                out.append((pend[: 4 + size], ctx))
                pend = pend[4 + size :]
        return out


class WriterRun:
    """Runs the plan's ops against one writer stack inside a World."""

    def __init__(self, world, plan, write_faults=None, crash_after=None, tap_only=False, fp_faults=None):
        self.w = world
        self.plan = plan
        cfg = plan["config"]
        self.cfg = cfg
        self.pool = Pool(plan["pool"])
        self.attempted = []  # observations of every record handed to write()
        self.returned = []  # indices (into attempted) whose write() returned
        self.tap = None
        self.raw = None
        self.layers = []
        self.writer = None
        self.api_calls = 0
        self.errors = []
        self.crash_after = crash_after
        self.crashed = False
        self.stopped = False
        self.path = None
        stack = "tap" if tap_only else cfg["stack"]
        self.stack = stack
        hp = HandlePlan(write_faults=write_faults or {})
        from flow.record import RecordStreamWriter, RecordWriter

        self.writer2 = None
        two = bool(cfg.get("two_writers")) and cfg["stack"] in ("raw", "buf", "gz", "gzbuf")
        if stack == "tap":
            self.sink = io.BytesIO()
            self.tap = Tap(self.sink)
            self.writer = RecordStreamWriter(self.tap)
            if two:
                self.writer2 = RecordStreamWriter(self.tap)
        elif stack in ("raw", "buf", "gz", "gzbuf"):
            self.raw = world.new_raw("wb", plan=hp, label="w0.raw")
            fp = self.raw
            try:
                if stack in ("buf", "gzbuf"):
                    fp = io.BufferedWriter(self.raw, cfg["buffer_size"])
                    self.layers.append(fp)
                if stack in ("gz", "gzbuf"):
                    fp = gzip.GzipFile(fileobj=fp, mode="wb")
                    self.layers.append(fp)
                world.keep.extend(self.layers)
                self.tap = Tap(fp, fp_faults, world)
                self.writer = RecordStreamWriter(self.tap)
                if two:
                    # a second stream writer appending to the same file object (its own packer, its own header)
                    self.writer2 = RecordStreamWriter(self.tap)
                    world.keep.append(self.writer2)
                    world.probe("two-writers-one-file-object")
                world.log("w0", "open", "-> ok")
            except Exception as e:  # noqa: BLE001  (a fault may hit while the gzip header is written)
                self.tap = self.tap or Tap(io.BytesIO())
                self.errors.append(("open", type(e).__name__))
                world.log("w0", "open", "->", type(e).__name__)
                self.stop()
        else:
            self.path = "/simfs/w.records" + (".gz" if stack == "pathgz" else "")
            world.fs.buffer_size = cfg["buffer_size"]
            world.fs.write_plans[self.path] = [hp]
            world.fs.open_counts.pop((self.path, True), None)
            try:
                self.writer = RecordWriter(self.path)
                world.log("w0", "open", "-> ok")
            except Exception as e:  # noqa: BLE001  (a fault may hit while the gzip header is written)
                self.errors.append(("open", type(e).__name__))
                world.log("w0", "open", "->", type(e).__name__)
                self.stop()
        world.keep.append(self.writer)

    def device(self):
        if self.stack == "tap":
            return b"".join(fb for fb, _ in self.tap.frames())
        if self.raw is not None:
            return bytes(self.raw._inode.data)
        if not self.w.fs.exists(self.path):
            return b""
        return self.w.fs.get(self.path)

    def raw_handle(self):
        if self.raw is not None:
            return self.raw
        for h in self.w.fs.handles:
            if h.name == self.path and h._w:
                return h
        return None

    def _call(self, what, fn):
        """One API call.  Returns True when the run goes on."""
        if self.stopped:
            return False
        self.api_calls += 1
        try:
            fn()
            ok = True
            self.w.log("w0", what, "-> ok")
        except Exception as e:  # noqa: BLE001
            ok = False
            self.errors.append((what, type(e).__name__))
            self.w.log("w0", what, "->", type(e).__name__)
            if self.cfg["policy"] == "fail-stop":
                self.stop()
        if self.crash_after is not None and self.api_calls >= self.crash_after and not self.stopped:
            self.crashed = True
            self.w.fault("crash")
            self.stop()
        return ok

    def stop(self):
        self.stopped = True
        self.w.fs.freeze_all()

    def run(self):
        if self.crash_after == 0:
            self.crashed = True
            self.w.fault("crash")
            self.stop()
        for opi, op in enumerate(self.plan["ops"]):
            if self.stopped:
                break
            kind = op["op"]
            if self.tap is not None:
                self.tap.ctx = None
            if kind == "write":
                rec = self.pool.make(op["desc"], op["values"])
                idx = len(self.attempted)
                self.attempted.append(obs_record(rec))
                if self.tap is not None:
                    self.tap.ctx = idx
                wr = self.writer2 if (self.writer2 is not None and op.get("w") == 1) else self.writer
                if self._call("write#%d" % idx, lambda: wr.write(rec)):
                    self.returned.append(idx)
            elif kind == "flush":
                self._call("flush", self.writer.flush)
            elif kind == "fpflush":
                if self.tap is not None and not self.cfg["stack"].startswith("path"):
                    self._call("fpflush", self.tap.flush)
                else:
                    self._call("fpflush", self.writer.flush)
            elif kind == "close":
                self._call("close", self._close)
        return self

    def _close(self):
        # close the whole stack the way a careful caller would (innermost last)
        first = None
        if self.writer2 is not None:
            self.writer2.fp = None  # the shared file object is closed once, by the first writer
        try:
            self.writer.close()
        except Exception as e:  # noqa: BLE001
            if self.cfg["policy"] == "fail-stop":
                raise
            first = e
        for layer in reversed(self.layers):
            try:
                if not layer.closed:
                    layer.close()
            except Exception as e:  # noqa: BLE001
                first = first or e
        if first:
            raise first


def reference_frames(plan):
    """Fault-free run against a recording sink: the logical frame sequence of the ops."""
    with World() as w:
        run = WriterRun(w, plan, tap_only=True).run()
        frames = run.tap.frames()
        attempted = run.attempted
        full = b"".join(fb for fb, _ in frames)
    return frames, attempted, full


# -- reader side --------------------------------------------------------------------------------
def read_back(world, data, cfg, reader, delivery, gz, read_error_at=None, tag="r"):
    """Read ``data`` (device content) through the library.  -> (observations, outcome)"""
    from flow.record import RecordReader, RecordStreamReader

    tail = delivery["tail"] if delivery else "whole"
    if tail != "whole" and len(data) > 3000 * int(tail):
        tail = -(-len(data) // 3000)  # keep a read below ~3000 raw calls; tiny chunks on big streams add cost, not reach
    hp = HandlePlan(delivery=delivery["sizes"] if delivery else None, tail=tail, read_error_at=read_error_at)
    got = []
    outcome = "end"
    world.fs.read_buffer_size = cfg["read_buffer_size"]
    sel = cfg.get("selector")
    if sel:
        world.probe("reader-with-selector")
    try:
        if reader == "bytesio":
            fp = io.BytesIO(data)
            if gz:
                fp = gzip.GzipFile(fileobj=fp, mode="rb")
            rd = RecordStreamReader(fp, selector=sel)
        elif reader == "bufreader":
            raw = world.new_raw("rb", data, hp, label=tag)
            fp = io.BufferedReader(raw, cfg["read_buffer_size"])
            world.keep.append(fp)
            if gz:
                fp = gzip.GzipFile(fileobj=fp, mode="rb")
                world.keep.append(fp)
            rd = RecordStreamReader(fp, selector=sel)
        elif reader == "fileobj":
            raw = world.new_raw("rb", data, hp, label=tag)
            fp = io.BufferedReader(raw, max(cfg["read_buffer_size"], 64))
            world.keep.append(fp)
            rd = RecordReader(fileobj=fp, selector=sel)
        elif reader == "rawobj":
            raw = world.new_raw("rb", data, hp, label=tag)
            rd = RecordReader(fileobj=raw, selector=sel)
        elif reader in ("path", "neutral"):
            if reader == "path":
                path = "/simfs/r.records" + (".gz" if gz else "")
            else:
                path = "/simfs/r.bin"
                world.fs.read_buffer_size = max(cfg["read_buffer_size"], 64)
            world.fs.put(path, data)
            world.fs.read_plans[path] = hp
            rd = RecordReader(path, selector=sel)
        else:
            raise ValueError(reader)
        world.keep.append(rd)
        if cfg.get("resume"):
            # the consumer takes one record, abandons that iterator, and later iterates the same reader again
            it = iter(rd)
            first = next(it, None)
            if first is not None:
                got.append(obs_record(first))
            del it
            world.probe("iteration-resumed")
        for rec in rd:
            got.append(obs_record(rec))
            if len(got) > 100000:
                outcome = "runaway"
                break
        try:
            rd.close()
        except Exception:  # noqa: BLE001
            pass
    except Exception as e:  # noqa: BLE001
        outcome = type(e).__name__
    return got, outcome


def recover_plain(data, gz):
    """What an independent decompressor gets out of the device content (as much as possible: on a
    corrupt member the member is re-fed byte by byte so that no decodable output is lost)."""
    if not gz:
        return bytes(data), True
    out = b""
    rest = bytes(data)
    complete = False
    while rest:
        d = zlib.decompressobj(31)
        try:
            chunk = d.decompress(rest)
        except zlib.error:
            d = zlib.decompressobj(31)
            try:
                for i in range(len(rest)):
                    out += d.decompress(rest[i : i + 1])
            except zlib.error:
                pass
            return out, False
        out += chunk
        if d.eof:
            rest = d.unused_data
            complete = True
        else:
            complete = False
            break
    return out, complete


def expected_min(plain, acked, intended):
    """Walk ``plain`` from offset 0 along the *intended* frame sequence (what the operations would
    have produced without faults).  An intended frame whose writes both returned (it is the next
    entry of ``acked``) must be byte-identical on disk at the current position, otherwise this is
    the damage point.  An intended frame that was refused (its write raised) is skipped when it is
    a record frame - a cleanly refused record leaves a well-formed stream - and is the damage point
    when it is the header or a descriptor frame, because later frames depend on it.
    -> (accepted record indices, stop offset, clean_end, accepted frame count)"""
    pos = 0
    recs = []
    n_frames = 0
    a = 0
    damaged = False
    for fb, ctx in intended:
        is_acked = a < len(acked) and acked[a][0] == fb and acked[a][1] == ctx
        if is_acked:
            a += 1
            if plain[pos : pos + len(fb)] == fb:
                pos += len(fb)
                n_frames += 1
                if ctx is not None and _is_record_frame(fb):
                    recs.append(ctx)
            else:
                damaged = True
                break
        else:
            if _is_record_frame(fb) and plain[pos : pos + len(fb)] != fb:
                continue
            if plain[pos : pos + len(fb)] == fb:
                # not acknowledged to the caller, yet completely on disk (e.g. flushed by a later call)
                pos += len(fb)
                n_frames += 1
                if ctx is not None and _is_record_frame(fb):
                    recs.append(ctx)
                continue
            damaged = True
            break
    clean = (not damaged) and pos == len(plain) and n_frames >= 1
    return recs, pos, clean, n_frames


_KIND_CACHE = {}


def _frame_kind(fb):
    k = _KIND_CACHE.get(fb)
    if k is None:
        try:
            k = refcodec.decode_body(fb[4:])[0]
        except Exception:  # noqa: BLE001
            k = "OTHER"
        if len(_KIND_CACHE) > 5000:
            _KIND_CACHE.clear()
        _KIND_CACHE[fb] = k
    return k


def _is_record_frame(fb):
    return _frame_kind(fb) in ("REC", "GROUPED")


def judge(prop_mode, attempted, acked, intended, plain, got, outcome, policy):
    """-> list of violations (dicts) for one read."""
    v = []
    exp_idx, stop, clean, n_frames = expected_min(plain, acked, intended)
    exp = [attempted[i] for i in exp_idx]
    if outcome == "runaway":
        v.append(_viol("C04.hang", "reader yielded more than 100000 records", {}))
        return v, exp_idx, clean
    if got[: len(exp)] != exp:
        # find first difference
        j = 0
        while j < len(exp) and j < len(got) and got[j] == exp[j]:
            j += 1
        if j >= len(got):
            detail = "yielded %d records then %s, but %d complete frames' records are on disk (record #%d missing: %s)" % (
                len(got), outcome, len(exp), exp_idx[j], short(exp[j], 160))  # fmt: skip
        else:
            detail = "record %d yielded differs from the complete frame on disk: got %s expected %s" % (j, short(got[j], 200), short(exp[j], 200))
        v.append(_viol("C04.prefix", detail, {"yielded": len(got), "expected": len(exp), "outcome": outcome}))
        return v, exp_idx, clean
    extra = got[len(exp) :]
    if extra:
        if policy != "continue":
            v.append(_viol("C04.beyond-damage", "%d record(s) yielded beyond the damage point at plaintext offset %d: %s" % (len(extra), stop, short(extra[0], 200)),
                           {"yielded": len(got), "expected": len(exp)}))  # fmt: skip
        else:
            # Beyond the damage point the caller kept writing.  When the frames there are still aligned (the
            # damage was a cleanly refused frame), what may follow is a *contiguous* run of the records whose
            # frames are on disk, in order: the reader may stop (raise) at any of them, but it may not skip a
            # completely written one and go on.  When the stream is misaligned the looser rule applies:
            # every extra must be some attempted record, in increasing write order.
            after = _records_on_disk_after(plain, stop, acked)
            if after is not None:
                want_after = [attempted[i] for i in after]
                if extra != want_after[: len(extra)]:
                    j = next((k for k in range(min(len(extra), len(want_after))) if extra[k] != want_after[k]), min(len(extra), len(want_after)))
                    v.append(_viol("C04.prefix", "after the damage point at plaintext offset %d the frames on disk hold records %s; the reader yielded %d of them but skipped or altered #%d: %s" % (
                        stop, after[:8], len(extra), j, short(extra[j] if j < len(extra) else None, 160)), {"yielded": len(got), "expected": len(exp), "skipped_after_damage": True}))  # fmt: skip
            else:
                last = exp_idx[-1] if exp_idx else -1
                for e in extra:
                    nxt = None
                    for i in range(last + 1, len(attempted)):
                        if attempted[i] == e:
                            nxt = i
                            break
                    if nxt is None:
                        # is it at least record-shaped, i.e. decoded under a descriptor that some written record had?
                        shaped = isinstance(e, list) and len(e) == 3 and e[0] != "NOT-A-RECORD" and any(a[:2] == e[:2] for a in attempted if isinstance(a, list))
                        v.append(_viol("C04.beyond-damage", "a record was yielded after the damage point that was never written (or out of order): %s" % short(e, 200),
                                       {"yielded": len(got), "expected": len(exp), "misaligned_after_damage": True, "record_shaped": bool(shaped), "policy": policy}))  # fmt: skip
                        break
                    last = nxt
    if clean and outcome != "end":
        v.append(_viol("C04.boundary-raises", "content is %d acknowledged frames ending exactly on a frame boundary, but reading raised %s" % (n_frames, outcome),
                       {"outcome": outcome, "frames": n_frames}))  # fmt: skip
    return v, exp_idx, clean


def _viol(inv, detail, info):
    return {"invariant": inv, "detail": detail, "info": info}


def _records_on_disk_after(plain, stop, acked):
    """Record indices of the frames on disk after offset ``stop`` when they are all whole acknowledged
    frames (aligned stream); None when the bytes there do not parse that way."""
    by_bytes = {}
    for fb, ctx in acked:
        by_bytes.setdefault(fb, []).append(ctx)
    pos = stop
    out = []
    n = len(plain)
    while pos < n:
        if n - pos < 4:
            break
        size = int.from_bytes(plain[pos : pos + 4], "big")
        fb = plain[pos : pos + 4 + size]
        if len(fb) < 4 + size:
            break  # a trailing partial frame: whatever precedes it was aligned
        if fb not in by_bytes:
            return None
        if _is_record_frame(fb):
            ctxs = by_bytes[fb]
            out.append(ctxs[0] if len(ctxs) == 1 else ctxs.pop(0))
        pos += 4 + size
    return out


# -- enumeration --------------------------------------------------------------------------------
def cut_offsets(plan, device, spans_dev, rng_seed):
    n = len(device)
    spec = plan.get("faults")
    if isinstance(spec, list):
        return [f["at"] for f in spec if f["kind"] == "cut"]
    cap = plan.get("cap", 4096)
    max_evals = plan.get("max_evals", 1500)
    if n <= cap and n + 1 <= max_evals:
        return list(range(0, n + 1))
    import random

    r = random.Random(rng_seed)
    pts = set([0, n])
    for s, e in spans_dev:
        for d in range(-4, 5):
            for b in (s, s + 4, e):
                if 0 <= b + d <= n:
                    pts.add(b + d)
    pts = sorted(pts)
    if len(pts) > max_evals // 2:
        pts = sorted(r.sample(pts, max_evals // 2))
    extra = max_evals - len(pts)
    if extra > 0:
        pts = sorted(set(pts) | set(r.randrange(0, n + 1) for _ in range(extra)))
    return pts


def phase_of(pos, spans, kinds):
    """Where does plaintext offset ``pos`` fall?  -> (kind, phase)"""
    for (s, e), k in zip(spans, kinds):
        if pos == s:
            return k, "boundary"
        if s < pos < s + 4:
            return k, "len"
        if s + 4 <= pos < e:
            return k, "body"
    return "END", "boundary"


def execute(plan, keep_log=False):
    import collections

    cfg = plan["config"]
    mode = plan["mode"]
    gz = cfg["gz"]
    viols = []
    evals = 0
    stats = collections.Counter()
    states = set()
    ref_frames, ref_attempted, ref_plain = reference_frames(plan)
    ref_spans = []
    pos = 0
    for fb, _ in ref_frames:
        ref_spans.append((pos, pos + len(fb)))
        pos += len(fb)
    ref_kinds = [_frame_kind(fb) for fb, _ in ref_frames]

    with World(keep_log=keep_log) as w:
        w.log("plan", mode, cfg["stack"], cfg["reader"], "ops=%d" % len(plan["ops"]))
        if any(k == "REC" and f[0].count(b"\xc7") + f[0].count(b"\xc8") + f[0].count(b"\xd4") > 3 for f, k in zip(ref_frames, ref_kinds)):
            pass
        if "H0" in plan["pool"] and any(op.get("desc", "").startswith("H") for op in plan["ops"]):
            w.probe("nested-record-stream")

        def add_viol(vs, fault, extra_detail=""):
            for v in vs:
                v = dict(v)
                v["fault"] = fault
                if extra_detail:
                    v["detail"] += " [" + extra_detail + "]"
                if not any(x["invariant"] == v["invariant"] for x in viols):
                    viols.append(v)

        def one_read(device, attempted, acked, policy, fault, tagbase, probe_phase=True, variance=False, read_err=None):
            nonlocal evals
            from ..driver import heartbeat

            heartbeat()
            plain, gz_complete = recover_plain(device, gz)
            got, outcome = read_back(w, device, cfg, cfg["reader"], cfg["delivery"], gz, tag=tagbase)
            evals += 1
            vs, exp_idx, clean = judge(mode, attempted, acked, ref_frames, plain, got, outcome, policy)
            w.log("read", tagbase, cfg["reader"], "len=%d" % len(device), "->", "end" if outcome == "end" else "raise", "n=%d" % len(got), "exp=%d" % len(exp_idx), "clean" if clean else "")
            add_viol(vs, fault)
            kind, phase = phase_of(len(plain), ref_spans, ref_kinds) if policy != "continue" else ("?", "?")
            if probe_phase and policy != "continue":
                if phase == "boundary":
                    w.probe("cut-on-boundary")
                elif kind in ("HEADER", "DESC", "REC"):
                    w.probe("cut-in-%s-%s" % ({"HEADER": "header", "DESC": "desc", "REC": "rec"}[kind], phase))
            ocls = "end" if outcome == "end" else "raise"
            states.add("|".join([mode, cfg["stack"], cfg["reader"], kind, phase, ocls, str(min(len(got), 3))]))
            if variance:
                got2, outcome2 = read_back(w, device, cfg, cfg["variance_reader"], cfg["variance_delivery"], gz, tag=tagbase + "v")
                evals += 1
                if got2 != got or (outcome2 == "end") != (outcome == "end"):
                    add_viol([_viol("C04.delivery-variance", "same bytes, reader %s/%s yields %d records then %s; reader %s/%s yields %d then %s" % (
                        cfg["reader"], cfg["delivery"], len(got), outcome, cfg["variance_reader"], cfg["variance_delivery"], len(got2), outcome2),
                        {"a": len(got), "b": len(got2)})], fault)  # fmt: skip
                states.add("|".join([mode, cfg["stack"], "var:" + cfg["variance_reader"], kind, phase, "end" if outcome2 == "end" else "raise"]))
            if read_err is not None and cfg["reader"] != "bytesio":
                got3, outcome3 = read_back(w, device, cfg, cfg["reader"], cfg["delivery"], gz, read_error_at=read_err, tag=tagbase + "e")
                evals += 1
                if got3 != got[: len(got3)]:
                    add_viol([_viol("C04.read-error-prefix", "with raw read #%d failing, %d records were yielded that are not a prefix of the %d yielded without the error" % (
                        read_err, len(got3), len(got)), {"a": len(got), "b": len(got3)})], fault)  # fmt: skip
                if 0 < len(got3) < len(got):
                    w.probe("read-error-between-frames")
            return got, outcome

        # ---- fault-free configuration: strict oracle -----------------------------------------
        if mode == "faultfree":
            run = WriterRun(w, plan).run()
            device = run.device()
            closed = any(op["op"] == "close" for op in plan["ops"])
            if closed and not run.errors:
                got, outcome = read_back(w, device, cfg, cfg["reader"], cfg["delivery"], gz, tag="r0")
                evals += 1
                want = [run.attempted[i] for i in run.returned]
                has_header = len(ref_frames) > 0
                w.log("read", "faultfree", cfg["reader"], "->", "end" if outcome == "end" else "raise", len(got), len(want))
                states.add("|".join(["faultfree", cfg["stack"], cfg["reader"], "end" if outcome == "end" else "raise", str(min(len(got), 3))]))
                if has_header and (got != want or outcome != "end"):
                    add_viol([_viol("C04.faultfree-roundtrip", "no fault injected: wrote %d records, closed; reader yielded %d then %s" % (len(want), len(got), outcome),
                                    {"want": len(want), "got": len(got), "outcome": outcome})], None)  # fmt: skip
                # and every delivery schedule gives the same
                got2, outcome2 = read_back(w, device, cfg, cfg["variance_reader"], cfg["variance_delivery"], gz, tag="r0v")
                evals += 1
                if has_header and (got2 != got or outcome2 != outcome):
                    add_viol([_viol("C04.delivery-variance", "fault-free stream: %s yields %d/%s, %s yields %d/%s" % (cfg["reader"], len(got), outcome, cfg["variance_reader"], len(got2), outcome2), {})], None)
            elif run.errors:
                raise RuntimeError("fault-free writer raised: %r" % (run.errors,))

        # ---- cuts ------------------------------------------------------------------------------
        elif mode == "cuts":
            run = WriterRun(w, plan).run()
            if run.errors:
                raise RuntimeError("fault-free writer raised: %r" % (run.errors,))
            device = run.device()
            acked = run.tap.frames() if run.tap is not None else ref_frames
            if gz:
                spans_dev = []
            else:
                spans_dev = refcodec.frame_spans(device)
            offs = cut_offsets(plan, device, spans_dev, plan.get("sample_seed", 0))
            stats["cut_offsets"] += len(offs)
            vm = cfg["variance_mod"]
            for n, k in enumerate(offs):
                dev_k = device[:k]
                w.fault("cut")
                if gz:
                    if k < 10:
                        w.probe("gz-cut-in-gzip-header")
                    elif k > len(device) - 8:
                        w.probe("gz-cut-in-trailer")
                    else:
                        w.probe("gz-cut-in-deflate")
                one_read(dev_k, run.attempted, acked, "fail-stop", {"kind": "cut", "at": k}, "cut%d" % k,
                         variance=((k + cfg["salt"]) % vm == 0), read_err=((k + cfg["salt"]) % 11) if (k + cfg["salt"]) % 13 == 0 else None)  # fmt: skip
                if n % 256 == 255:
                    w.release_readers()
                    gc.collect()
                if evals >= plan.get("max_evals", 1500) * 2:
                    break

        # ---- crash after every API call --------------------------------------------------------
        elif mode == "crash":
            dry = WriterRun(w, plan).run()
            n_calls = dry.api_calls
            spec = plan.get("faults")
            points = [f["after"] for f in spec if f["kind"] == "crash"] if isinstance(spec, list) else list(range(0, n_calls + 1))
            for c in points:
                run = WriterRun(w, plan, crash_after=c).run()
                device = run.device()
                acked = run.tap.frames() if run.tap is not None else ref_frames
                if run.tap is not None and len(recover_plain(device, gz)[0]) < sum(len(f) for f, _ in acked):
                    w.probe("crash-with-nonempty-buffer")
                one_read(device, run.attempted, acked, "fail-stop", {"kind": "crash", "after": c}, "crash%d" % c, variance=(c % 2 == 0))
                w.release_readers()

        # ---- failing / torn / short raw writes -------------------------------------------------
        elif mode == "write_faults":
            dry = WriterRun(w, plan).run()
            h = dry.raw_handle()
            n_raw = h.n_write if h is not None else 0
            sizes = [x[2] for x in h.writes] if h is not None else []
            spec = plan.get("faults")
            if isinstance(spec, list):
                faults = spec
            else:
                faults = []
                beneath_buffer = cfg["stack"] in ("buf", "gzbuf", "path", "pathgz")
                import random

                r = random.Random(plan.get("sample_seed", 0))
                if cfg.get("fault_layer") == "fp" and dry.tap is not None:
                    n_fp = len(dry.tap.calls)
                    for i in (range(n_fp) if n_fp <= 200 else sorted(r.sample(range(n_fp), 200))):
                        faults.append({"kind": "fp_write_error", "call": i, "errno": r.choice(["ENOSPC", "EIO", "EPIPE"])})
                    n_raw = 0
                idxs = list(range(n_raw))
                if len(idxs) > 120:
                    idxs = sorted(r.sample(idxs, 120))
                for i in idxs:
                    faults.append({"kind": "raw_write_error", "call": i, "errno": r.choice(["ENOSPC", "EIO", "EPIPE"]), "torn": 0})
                    if cfg["policy"] == "fail-stop" and sizes[i] > 1:
                        for m in sorted(set([1, sizes[i] - 1, r.randrange(1, sizes[i])])):
                            faults.append({"kind": "raw_write_error", "call": i, "errno": "ENOSPC", "torn": m})
                    if beneath_buffer and sizes[i] > 1:
                        m = r.choice([1, sizes[i] - 1, r.randrange(1, sizes[i])])
                        faults.append({"kind": "raw_write_short", "call": i, "accept": m, "then_error": r.random() < 0.5})
            if not isinstance(spec, list) and cfg["policy"] == "continue":
                # pairs of refused calls: some bugs need two faults (a retry queue that re-sends, ...)
                singles = [f for f in faults if f["kind"] in ("raw_write_error", "fp_write_error") and not f.get("torn")]
                pairs = []
                for a in range(len(singles)):
                    for d in (1, 2, 3):
                        if a + d < len(singles):
                            pairs.append((a, a + d))
                if len(pairs) > 80:
                    pairs = sorted(r.sample(pairs, 80))
                for a, b in pairs:
                    faults.append({"kind": "multi", "faults": [singles[a], singles[b]]})
            for fi, f in enumerate(faults):
                wf = {}
                fpf = {}
                parts = f["faults"] if f["kind"] == "multi" else [f]
                if f["kind"] == "multi":
                    w.probe("two-faults-in-one-run")
                    for g in parts:
                        if g["kind"] == "raw_write_error":
                            wf[g["call"]] = {"kind": "error", "errno": g.get("errno", "ENOSPC"), "torn": 0}
                        else:
                            fpf[g["call"]] = g.get("errno", "ENOSPC")
                elif f["kind"] == "raw_write_error":
                    wf[f["call"]] = {"kind": "error", "errno": f.get("errno", "ENOSPC"), "torn": f.get("torn", 0)}
                elif f["kind"] == "fp_write_error":
                    fpf[f["call"]] = f.get("errno", "ENOSPC")
                else:
                    wf[f["call"]] = {"kind": "short", "accept": f["accept"]}
                    if f.get("then_error"):
                        wf[f["call"] + 1] = {"kind": "error", "errno": "ENOSPC", "torn": 0}
                run = WriterRun(w, plan, write_faults=wf, fp_faults=fpf).run()
                device = run.device()
                acked = run.tap.frames() if run.tap is not None else ref_frames
                if cfg["policy"] == "continue" and run.errors:
                    # did the failure swallow a descriptor frame that later records need?
                    full_kinds = [_frame_kind(fb) for fb, _ in acked]
                    if full_kinds.count("DESC") < ref_kinds.count("DESC"):
                        w.probe("continue-lost-descriptor")
                if cfg["policy"] == "continue" and not run.stopped:
                    policy = "continue"
                else:
                    policy = cfg["policy"]
                one_read(device, run.attempted, acked, policy, f, "wf%d" % fi, probe_phase=(policy != "continue"), variance=(fi % 4 == 0))
                states.add("|".join(["wf", cfg["stack"], cfg["policy"], f["kind"], "torn" if f.get("torn") else "", "err" if run.errors else "noerr"]))
                w.release_readers()
                if fi % 64 == 63:
                    gc.collect()
        else:
            raise ValueError(mode)

        stats.update(w.stats)
        digest = w.digest()
        trace = w.trace
        sim_us = w.clock.covered_us
    sample = {"mode": mode, "stack": cfg["stack"], "reader": cfg["reader"], "policy": cfg["policy"], "ops": [o["op"] + (":" + o["desc"] if "desc" in o else "") for o in plan["ops"]][:20],
              "pool": {k: v for k, v in list(plan["pool"].items())[:3]}, "evaluations": evals, "stream_bytes": len(ref_plain)}  # fmt: skip
    return {"violations": viols, "digest": digest, "stats": stats, "states": states, "evals": max(evals, 1), "sim_us": sim_us, "trace": trace, "sample": sample}


# -- minimisation support -----------------------------------------------------------------------
def pin_fault(plan, viol):
    """Replace the enumeration by the one fault instance that produced the violation."""
    f = viol.get("fault")
    if f is None or plan.get("mode") == "faultfree":
        return plan
    p = dict(plan)
    p["faults"] = [f]
    return p


def fix_plan(plan):
    """Called after ops were dropped: keep the plan well-formed (a fault must be re-searched)."""
    p = dict(plan)
    if isinstance(p.get("faults"), list):
        p["faults"] = "enumerate"
    return p


def shrink_candidates(plan):
    import copy

    # pin the failing fault once ops are minimal: handled by driver via violation["fault"]
    cfg = plan["config"]
    for key, simple in (("buffer_size", 8192), ("read_buffer_size", 8192)):
        if cfg[key] != simple:
            c = copy.deepcopy(plan)
            c["config"][key] = simple
            yield c
    if cfg["delivery"] != {"sizes": [], "tail": "whole"}:
        c = copy.deepcopy(plan)
        c["config"]["delivery"] = {"sizes": [64] if cfg["reader"] in ("fileobj", "neutral", "rawobj") else [], "tail": "whole"}
        yield c
    if cfg["reader"] != "bytesio":
        c = copy.deepcopy(plan)
        c["config"]["reader"] = "bytesio"
        yield c
    # simpler values
    for i, op in enumerate(plan["ops"]):
        if op["op"] == "write":
            for j, v in enumerate(op["values"]):
                if v is not None and not (isinstance(v, dict) and "$rec" in v):
                    c = copy.deepcopy(plan)
                    c["ops"][i]["values"][j] = None
                    yield c
    # drop unused pool entries
    used = set(op.get("desc") for op in plan["ops"] if op["op"] == "write")
    if any(k.startswith("H") for k in used):
        used.add("C0")
    for k in list(plan["pool"]):
        if k not in used:
            c = copy.deepcopy(plan)
            del c["pool"][k]
            yield c
            break


def _partial_frame_then_more(plan, viol):
    """Known finding (format limitation): under the continue policy a frame was persisted only in part (a short raw
    write, then an error), the caller went on writing, and the reader - which has no checksum or resynchronisation
    marker to go by - took the partial body plus the bytes of the following frames for one frame that happens to be
    valid msgpack of the right shape.  Only a *record-shaped* yield from *misaligned* bytes is excused; a non-record
    object, a yield from an aligned stream, or anything under fail-stop is not."""
    info = viol.get("info") or {}
    f = viol.get("fault") or {}
    kinds = [f.get("kind")] + [g.get("kind") for g in f.get("faults", [])]
    return bool(info.get("policy") == "continue" and info.get("misaligned_after_damage") and info.get("record_shaped") and "raw_write_short" in kinds)


KNOWN = {"partial-frame-then-more-frames": _partial_frame_then_more}


def mutate(plan, rng):
    import copy

    from ..driver import mutate_ops

    p = mutate_ops(plan, rng)
    had_close = any(o["op"] == "close" for o in p["ops"])
    p["ops"] = [o for o in p["ops"] if o["op"] != "close"][:60] + ([{"op": "close"}] if had_close else [])
    p["faults"] = "enumerate"
    cfg = copy.deepcopy(p["config"])
    r = rng.random()
    if r < 0.25:
        cfg["buffer_size"] = rng.choice([1, 3, 4, 5, 16, 64, 512, 8192])
    elif r < 0.4:
        cfg["reader"] = rng.choice(READER_STACKS)
        cfg["delivery"] = gen_delivery(rng, cfg["reader"])
    elif r < 0.5:
        p["mode"] = rng.choice(["cuts", "write_faults", "crash"])
        if p["mode"] != "write_faults":
            cfg["policy"] = "fail-stop"
            cfg["fault_layer"] = "raw"
    p["config"] = cfg
    p["sample_seed"] = rng.randrange(1 << 30)
    return p
