"""C11 - compression and container format are detected transparently.

A producer's byte stream (written by the library through RecordWriter on a path whose extension
selects the codec, one or two writers open at the same time) is checked with the independent
decompressor of its format and then offered to RecordReader in every way of naming a source:
path with the right extension, neutral path, BytesIO, BufferedReader on a raw device, bare raw
device, and standard input ("-", no argument, "stream://-" / "avro://-").  For file objects and
stdin the simulator owns *how the bytes arrive*: the delivery schedule of the raw reads.  Garbage
inputs must be refused.  See DESIGN.md 5.3.
"""

import bz2
import collections
import gzip
import io

import lz4.frame
import zstandard

from .. import gen, refcodec
from ..observe import obs_record, short
from ..plan import Pool, enc_value
from ..simfs import HandlePlan
from ..world import World

NAME = "c11_detect"
PROP = "C11"
LEVEL = "exploration"
RULE = (
    "each run picks a cell of the codec x container matrix (5 x 2), writes a seeded record sequence with one or two concurrently open "
    "writers, verifies the file with the format's independent decompressor, then reads it back through all 9 ways of naming the source, "
    "file objects and stdin under a seeded delivery schedule (whole, >=19 first, tiny first chunk, 1 byte at a time, boundaries inside the "
    "codec magic / stream header / Avro magic), plus seeded garbage inputs (empty, text, record text, magic-prefixed garbage per codec and "
    "Avro, shifted-header near misses, random bytes). One evaluation = one read. Distinct state = (codec, container, naming, first-chunk "
    "bucket, outcome class)."
)
ASSUMPTIONS = [
    "delivery schedules (short raw reads) are applied to file objects and stdin only; reads of regular files named by a path are delivered whole, as a real file system does",
    "Avro cells use one descriptor per file and values Avro can carry (text, 64-bit ints, booleans, UTC timestamps after 1970)",
    "for garbage, only yielding a record - or accepting bytes that contain no record-stream magic at all - counts as 'misread'; ending quietly on a header followed by junk is C04's truncated-stream case",
    "the known finding single-shot-peek is matched counterfactually: same bytes accepted under whole delivery and under the same schedule with only its first chunk enlarged",
]
EXPECTED_PROBES = ["neutral-name-sniffed", "stdin-read", "first-chunk-inside-magic", "one-byte-delivery", "two-writers-open", "garbage-refused", "avro-cell", "independent-decompressor-ok",
                   "scheme-stdin", "foreign-producer", "closed-without-flush", "two-readers-alive"]  # fmt: skip

CODECS = ["none", "gz", "bz2", "lz4", "zst"]
EXT = {"none": "", "gz": ".gz", "bz2": ".bz2", "lz4": ".lz4", "zst": ".zst"}
MAGIC = {"gz": b"\x1f\x8b", "bz2": b"BZh", "lz4": b"\x04\x22\x4d\x18", "zst": b"\x28\xb5\x2f\xfd"}
NAMINGS = ["ext-path", "neutral-path", "bytesio", "bufreader", "rawobj", "stdin-dash", "stdin-none", "scheme-stdin", "bufreader-small", "stdin-nopeek", "bytesio-offset", "bufreader-offset", "ext-path-after-selector", "rawobj-seekable", "fifo-path", "zip-member", "ext-path-double-slash", "stdin-empty", "scheme-stdin-bare", "ext-path-relative"]
NEED_FIRST = {"gz": 2, "bz2": 3, "lz4": 4, "zst": 4}

STREAM_TYPES = ["string", "varint", "uint32", "boolean", "float", "bytes", "datetime", "string[]", "path", "net.ipaddress"]


def budget(tier):
    return 20000 if tier == "quick" else 200000


def wall_cap(tier):
    return 300 if tier == "quick" else 600


# -- generation ---------------------------------------------------------------------------------
def gen_delivery(rng, data_hint=200):
    kind = rng.choice(["whole", "19+", "tiny", "one", "inside-magic", "random"])
    if kind == "whole":
        return {"sizes": [], "tail": "whole", "kind": kind}
    if kind == "19+":
        return {"sizes": [rng.choice([19, 20, 64, 4096])] + [rng.choice([1, 7, 4096]) for _ in range(30)], "tail": "whole", "kind": kind}
    if kind == "tiny":
        return {"sizes": [rng.randrange(1, 19)] + [rng.choice([1, 5, 4096]) for _ in range(30)], "tail": "whole", "kind": kind}
    if kind == "one":
        return {"sizes": [], "tail": 1, "kind": kind}
    if kind == "inside-magic":
        return {"sizes": [rng.choice([1, 2, 3, 4, 5, 6, 10, 18]), rng.choice([1, 2, 3, 13])] + [rng.choice([1, 3, 4096]) for _ in range(20)], "tail": "whole", "kind": kind}
    return {"sizes": [rng.choice([1, 2, 3, 4, 5, 18, 19, 20, 64, 4096]) for _ in range(60)], "tail": rng.choice([1, 3, "whole"]), "kind": kind}


def gen_values_avro(rng, fields):
    out = []
    for typ, _ in fields:
        if typ == "string":
            out.append(gen.gen_text(rng, rng.randrange(0, 12)) if rng.random() < 0.9 else None)
        elif typ == "varint":
            out.append(enc_value(rng.choice([0, 1, -1, 2**63 - 1, -(2**63), 12345678901])))
        elif typ == "boolean":
            out.append(rng.random() < 0.5)
        elif typ == "datetime":
            out.append(enc_value(gen.gen_datetime(rng, utc_only=True, after_1970=True)))
    return out


def generate(rng, tier, index):
    n_cells = len(CODECS) * 2
    cell = index % n_cells if index < 4 * n_cells else rng.randrange(n_cells)
    codec = CODECS[cell % len(CODECS)]
    container = ["stream", "avro"][cell // len(CODECS)]
    two = rng.random() < 0.4
    pool = {}
    if container == "avro":
        pool["D0"] = ["c11/av", gen.gen_fields(rng, ["string", "varint", "boolean", "datetime"], 1, 4)]
        pool["D1"] = ["c11/aw", gen.gen_fields(rng, ["string", "varint", "boolean"], 1, 3)]
    else:
        for i in range(rng.choice([1, 2, 3])):
            pool["D%d" % i] = [rng.choice(["c11/a", "c11/b", "x"]), gen.gen_fields(rng, STREAM_TYPES, 1, 4)]
    writers = [{"id": "w0", "codec": codec}]
    if two:
        writers.append({"id": "w1", "codec": codec if rng.random() < 0.6 else rng.choice(CODECS)})
    ops = []
    n = rng.choice([0, 1, 2, 3, 5, 8] if tier == "quick" else [0, 1, 3, 6, 12, 30])
    keys = sorted(pool)
    for i in range(n * len(writers)):
        wid = rng.choice(writers)["id"]
        if container == "avro":
            k = "D0" if wid == "w0" else "D1"
            ops.append({"op": "write", "w": wid, "desc": k, "values": gen_values_avro(rng, pool[k][1])})
        else:
            k = rng.choice(keys)
            vals = gen.gen_record_values(rng, pool[k][1], big=rng.random() < 0.1)
            if rng.random() < 0.06:
                # a highly compressible record that is larger than the whole compressed file
                for fi, (typ, _) in enumerate(pool[k][1]):
                    if typ == "string":
                        vals[fi] = rng.choice(["ab", "x", "0123456789"]) * rng.choice([2000, 9000, 30000])
                        break
            ops.append({"op": "write", "w": wid, "desc": k, "values": vals})
        if rng.random() < 0.1:
            ops.append({"op": "flush", "w": wid})
    reads = []
    order = list(NAMINGS)
    rng.shuffle(order)  # process-global state (lazy imports, caches) must not depend on which access path ran first
    for naming in order:
        reads.append({"naming": naming, "delivery": gen_delivery(rng)})
    garbage = []
    for _ in range(rng.choice([1, 2, 3])):
        garbage.append(gen_garbage(rng))
    # "foreign": the file was not produced through a codec path of this process - the library writes the
    # uncompressed container and the format's own compressor (called directly) does the rest
    producer = "foreign" if (not two and rng.random() < 0.35) else "library"
    return {"container": container, "codec": codec, "writers": writers, "pool": pool, "ops": ops, "reads": reads, "garbage": garbage,
            "read_buffer_size": rng.choice([8192, 8192, 64, 32]), "producer": producer, "closing": rng.choice(["exit", "exit", "exit", "close"]),
            "clobber": rng.random() < 0.8}  # fmt: skip


def gen_garbage(rng):
    kind = rng.choice(["empty", "text", "record-text", "magic-gz", "magic-bz2", "magic-lz4", "magic-zst", "magic-avro", "random", "shifted-header", "header-in-text", "compressed-garbage"])
    return {"kind": kind, "seed": rng.randrange(1 << 30), "naming": rng.choice(["bytesio", "neutral-path", "bufreader", "stdin-dash", "ext-path", "rawobj", "rawobj-seekable"]), "codec": rng.choice(CODECS)}


def make_garbage(g, real_stream_plain):
    import random

    r = random.Random(g["seed"])
    k = g["kind"]
    junk = bytes(r.getrandbits(8) for _ in range(r.randrange(20, 200)))
    if k == "empty":
        return b""
    if k == "text":
        return ("hello world, this is not a record stream\n" * r.randrange(1, 4)).encode()
    if k == "record-text":
        return b"<test/a s='x' n=1>\n<test/a s='y' n=2>\n"
    if k.startswith("magic-") and k != "magic-avro":
        return MAGIC[k[6:]] + junk
    if k == "magic-avro":
        return b"Obj\x01" + junk
    if k == "random":
        return junk.replace(b"RECORDSTREAM", b"recordstream")
    if k == "shifted-header":
        # 19 leading bytes that contain the magic at the wrong offset, then genuine frames
        off = r.randrange(0, 6)
        head = (b"\x00" * off + refcodec.MAGIC + b"\x00" * 19)[:19]
        return head + real_stream_plain[19:]
    if k == "header-in-text":
        return b"see " + refcodec.MAGIC + b" for details " + junk.replace(b"\n", b" ")
    if k == "compressed-garbage":
        c = g["codec"]
        payload = b"this is compressed, but not a record stream " + junk
        if c == "gz":
            return gzip.compress(payload, mtime=0)
        if c == "bz2":
            return bz2.compress(payload)
        if c == "lz4":
            return lz4.frame.compress(payload)
        if c == "zst":
            return zstandard.ZstdCompressor().compress(payload)
        return payload
    raise ValueError(k)


# -- helpers --------------------------------------------------------------------------------------
def independent_decompress(codec, data):
    if codec == "gz":
        return gzip.decompress(data)
    if codec == "bz2":
        return bz2.decompress(data)
    if codec == "lz4":
        out = b""
        rest = data
        while rest:
            d = lz4.frame.LZ4FrameDecompressor()
            out += d.decompress(rest)
            if not d.eof:
                raise ValueError("truncated lz4 frame")
            rest = d.unused_data
        return out
    if codec == "zst":
        return zstandard.ZstdDecompressor().stream_reader(io.BytesIO(data), read_across_frames=True).read()
    return data


def foreign_compress(codec, data):
    if codec == "gz":
        return gzip.compress(data, mtime=0)
    if codec == "bz2":
        return bz2.compress(data)
    if codec == "lz4":
        return lz4.frame.compress(data)
    if codec == "zst":
        if len(data) % 3 == 0:
            # what "zstd --long" / "--ultra" produce: a streamed frame announcing a 32 MiB window
            params = zstandard.ZstdCompressionParameters.from_level(3, window_log=25)
            c = zstandard.ZstdCompressor(compression_params=params).compressobj()
            return c.compress(data) + c.flush()
        return zstandard.ZstdCompressor().compress(data)
    return data


def _viol(inv, detail, info=None):
    return {"invariant": inv, "detail": detail, "info": info or {}}


def do_read(w, plan, naming, delivery, data, container, codec, tag):
    """-> (observations, outcome, reader class name, stage)"""
    from flow.record import RecordReader

    hp = HandlePlan(delivery=delivery["sizes"] if delivery["sizes"] or delivery["tail"] != "whole" else None, tail=delivery["tail"])
    pre = "avro://" if container == "avro" else ""
    stem = "x.avro" if container == "avro" else "x.records"
    got = []
    cls = None
    stage = "construct"
    w.fs.read_buffer_size = plan.get("read_buffer_size", 8192)
    try:
        if naming == "ext-path":
            path = "/simfs/r/%s%s" % (stem, EXT[codec])
            w.fs.put(path, data)
            rd = RecordReader(pre + path)
        elif naming == "ext-path-relative":
            # a bare file name in the working directory, no scheme: container and codec both follow the extension
            name = "%s%s" % (stem, EXT[codec])
            w.fs.makedirs(w.sim_cwd, exist_ok=True)
            w.fs.put(w.sim_cwd + "/" + name, data)
            # (an Avro container inside a codec needs the scheme: ".avro.gz" does not end in ".avro")
            rd = RecordReader(pre + name if (container == "avro" and codec != "none") else name)
        elif naming == "ext-path-double-slash":
            # an absolute path that starts with two slashes (joined from "/" + "/dir/file", common in scripts): names
            # the same file as with one
            path = "/simfs/r/%s%s" % (stem, EXT[codec])
            w.fs.put(path, data)
            rd = RecordReader(pre + "/" + path)
        elif naming == "ext-path-after-selector":
            # the same URL was read before with a selector (one that matches nothing); this read has none
            path = "/simfs/r/%s%s" % (stem, EXT[codec])
            w.fs.put(path, data)
            first = RecordReader(pre + path, selector="r.no_such_field_zz == 'x'")
            n_first = sum(1 for _ in first)
            first.close()
            if n_first:
                raise AssertionError("selector that matches nothing yielded %d records" % n_first)
            rd = RecordReader(pre + path)
        elif naming in ("bytesio-offset", "bufreader-offset"):
            # the caller has already consumed an envelope in front of the record data: the object is handed over
            # at a non-zero position
            pre_len = 7 + (len(data) % 23)
            blob = bytes((i * 31 + 7) % 256 for i in range(pre_len)) + data
            if naming == "bytesio-offset":
                fp = io.BytesIO(blob)
                fp.read(pre_len)
            else:
                raw = w.new_raw("rb", blob, None, label=tag, seekable=True)
                fp = io.BufferedReader(raw, 4096)
                w.keep.append(fp)
                fp.read(pre_len)
            rd = RecordReader(fileobj=fp)
        elif naming == "fifo-path":
            # a named pipe or /dev/fd/N: exists, is not a regular file, cannot seek (shell process substitution)
            path = "/simfs/r/fd63"
            w.fs.put_fifo(path, data)
            w.fs.read_plans[path] = HandlePlan(delivery=[4096, 7, 4096], tail="whole")
            rd = RecordReader(pre + path)
        elif naming == "zip-member":
            import zipfile

            # what ZipFile.open(member) returns: a binary, peekable object whose .mode is the string "r"
            zbuf = io.BytesIO()
            with zipfile.ZipFile(zbuf, "w", zipfile.ZIP_STORED) as zf:
                zf.writestr("member.bin", data)
            zf = zipfile.ZipFile(io.BytesIO(zbuf.getvalue()))
            fp = zf.open("member.bin")
            w.keep += [zf, fp]
            rd = RecordReader(fileobj=fp)
        elif naming == "neutral-path":
            path = "/simfs/r/neutral.bin"
            w.fs.put(path, data)
            rd = RecordReader(pre + path)
        elif naming == "bytesio":
            rd = RecordReader(fileobj=io.BytesIO(data))
        elif naming in ("bufreader", "bufreader-small"):
            raw = w.new_raw("rb", data, hp, label=tag, seekable=False)
            fp = io.BufferedReader(raw, 8192 if naming == "bufreader" else 32)
            w.keep.append(fp)
            rd = RecordReader(fileobj=fp)
        elif naming == "rawobj":
            raw = w.new_raw("rb", data, hp, label=tag, seekable=False)
            rd = RecordReader(fileobj=raw)
        elif naming == "rawobj-seekable":
            raw = w.new_raw("rb", data, hp, label=tag, seekable=True)  # e.g. open(path, "rb", buffering=0) on a slow device
            rd = RecordReader(fileobj=raw)
        elif naming == "stdin-nopeek":
            w.set_stdin_nopeek(data, hp)
            w.probe("stdin-read")
            rd = RecordReader("-")
        elif naming in ("stdin-dash", "stdin-none", "scheme-stdin", "stdin-empty", "scheme-stdin-bare"):
            w.set_stdin(data, hp)
            w.probe("stdin-read")
            if naming == "stdin-dash":
                rd = RecordReader("-")
            elif naming == "stdin-none":
                rd = RecordReader()
            elif naming == "stdin-empty":
                rd = RecordReader("")  # the third spelling of standard input
            elif naming == "scheme-stdin-bare":
                rd = RecordReader(("avro" if container == "avro" else "stream") + "://")
            else:
                w.probe("scheme-stdin")
                rd = RecordReader(("avro" if container == "avro" else "stream") + "://-")
        else:
            raise ValueError(naming)
        w.keep.append(rd)
        cls = type(rd).__name__
        stage = "iterate"
        for rec in rd:
            got.append(obs_record(rec))
            stage = "after-%d" % len(got)
            if len(got) > 100000:
                return got, "runaway", cls, stage
        return got, "ok", cls, stage
    except Exception as e:  # noqa: BLE001
        return got, type(e).__name__, cls, stage


def first_chunk_bucket(d):
    if not d["sizes"]:
        return "1" if d["tail"] == 1 else "whole"
    f = d["sizes"][0]
    return "<2" if f < 2 else "<3" if f < 3 else "<4" if f < 4 else "<19" if f < 19 else ">=19"


def execute(plan, keep_log=False):
    from flow.record import RecordWriter

    viols = []
    evals = 0
    container, codec = plan["container"], plan["codec"]

    def add(v):
        if not any(x["invariant"] == v["invariant"] and (x.get("info") or {}).get("short_peek") == (v.get("info") or {}).get("short_peek") for x in viols):
            viols.append(v)

    with World(keep_log=keep_log) as w:
        pool = Pool(plan["pool"])
        w.fs.makedirs("/simfs/r", exist_ok=True)
        w.log("plan", container, codec, "writers=%d" % len(plan["writers"]), "ops=%d" % len(plan["ops"]))
        if container == "avro":
            w.probe("avro-cell")
        # ---- produce -------------------------------------------------------------------------------
        writers = {}
        written = {}
        stem = "x.avro" if container == "avro" else "x.records"
        pre = "avro://" if container == "avro" else ""
        foreign = plan.get("producer") == "foreign"
        for wd in plan["writers"]:
            path = "/simfs/%s.%s%s" % (wd["id"], stem, "" if foreign else EXT[wd["codec"]])
            # clobber=False only refuses to overwrite; the target does not exist here, so it must not change anything
            wr = RecordWriter(pre + path) if plan.get("clobber", True) else RecordWriter(pre + path, clobber=False)
            writers[wd["id"]] = (wr, path, "none" if foreign else wd["codec"])
            written[wd["id"]] = []
            w.keep.append(writers[wd["id"]][0])
        if len(writers) > 1:
            w.probe("two-writers-open")
        for op in plan["ops"]:
            wr, path, _ = writers[op["w"]]
            if op["op"] == "write":
                rec = pool.make(op["desc"], op["values"])
                wr.write(rec)
                written[op["w"]].append(obs_record(rec))
            else:
                wr.flush()
        plain_close = plan.get("closing") == "close"
        for wid in sorted(writers):
            wr = writers[wid][0]
            if plain_close:
                wr.close()  # no flush: whatever the codec buffered must still end up in a complete file
                w.probe("closed-without-flush")
            else:
                wr.__exit__(None, None, None)
        # ---- clause 1: leading bytes + independent decompressor -------------------------------------
        files = {}
        if foreign:
            w.probe("foreign-producer")
        for wid in sorted(writers):
            _, path, c = writers[wid]
            data = w.fs.get(path)
            if foreign:
                c = [wd["codec"] for wd in plan["writers"] if wd["id"] == wid][0]
                data = foreign_compress(c, data)
            files[wid] = (data, c)
            if c != "none" and not data.startswith(MAGIC[c]):
                add(_viol("C11.written-codec", "file %s does not start with the %s magic: %r" % (path, c, data[:8])))
            try:
                plain = independent_decompress(c, data)
            except Exception as e:  # noqa: BLE001
                add(_viol("C11.written-codec", "independent %s decompressor rejects %s: %s: %s" % (c, path, type(e).__name__, short(str(e), 100))))
                continue
            if plain_close and not written[wid]:
                # a writer closed without flush and without records leaves no container header (C17's known finding);
                # here only the codec layer is judged: the independent decompressor accepted the file
                w.probe("independent-decompressor-ok")
                continue
            got, outcome, cls, stage = do_read(w, plan, "bytesio", {"sizes": [], "tail": "whole"}, plain, container, "none", "plain-" + wid)
            evals += 1
            if outcome != "ok" or got != written[wid]:
                add(_viol("C11.written-codec", "what the independent %s decompressor returns for %s reads as %d records / %s, written %d" % (c, path, len(got), outcome, len(written[wid])),
                          {"codec": c, "writers": len(writers)}))  # fmt: skip
            else:
                w.probe("independent-decompressor-ok")
        # ---- clause 2: every naming, delivery must not matter ---------------------------------------
        data, c = files["w0"]
        want = written["w0"]
        if plain_close and not want:
            plan = dict(plan, reads=[])  # nothing readable was promised for this file
        want_cls = "AvroReader" if container == "avro" else "StreamReader"
        plain0 = None
        try:
            plain0 = independent_decompress(c, data)
        except Exception:  # noqa: BLE001
            plain0 = b""
        for ri, rd in enumerate(plan["reads"]):
            naming, delivery = rd["naming"], rd["delivery"]
            deliv = delivery if naming in ("bufreader", "bufreader-small", "rawobj", "stdin-dash", "stdin-none", "scheme-stdin", "stdin-nopeek", "rawobj-seekable", "stdin-empty", "scheme-stdin-bare") else {"sizes": [], "tail": "whole", "kind": "whole"}
            got, outcome, cls, stage = do_read(w, plan, naming, deliv, data, container, c, "r%d" % ri)
            evals += 1
            if naming == "neutral-path" and outcome == "ok":
                w.probe("neutral-name-sniffed")
            if deliv["kind"] in ("tiny", "inside-magic"):
                w.probe("first-chunk-inside-magic")
            if deliv["tail"] == 1:
                w.probe("one-byte-delivery")
            # the exception *class* is not part of the event log or the state: on garbage a decoder may fail with
            # MemoryError or ValueError depending on how much address space happens to be free
            ocls = "ok" if outcome == "ok" and got == want else ("wrong" if outcome == "ok" else "raise")
            w.state(c, container, naming, first_chunk_bucket(deliv), ocls)
            w.log("read", naming, deliv["kind"], "->", "ok" if outcome == "ok" else "raise", "n=%d" % len(got), stage if outcome == "ok" or not stage.startswith("after") else "after")
            if outcome == "ok" and got == want:
                if cls != want_cls:
                    add(_viol("C11.reader-class", "%s source read with %s, expected %s" % (container, cls, want_cls)))
                continue
            # something differs from the fault-free reference
            info = {"naming": naming, "delivery": deliv, "outcome": outcome, "stage": stage, "codec": c, "container": container, "short_peek": False}
            inv = "C11.delivery-variance" if deliv["kind"] != "whole" else "C11.naming-variance"
            if deliv["kind"] != "whole" and outcome != "ok" and not got:
                # counterfactual: the same bytes under whole delivery, and under the same schedule with only
                # its first chunk enlarged to the shortest sufficient size
                g2, o2, _, _ = do_read(w, plan, naming, {"sizes": [], "tail": "whole", "kind": "whole"}, data, container, c, "r%dw" % ri)
                evals += 1
                info["whole_ok"] = o2 == "ok" and g2 == want
                first = deliv["sizes"][0] if deliv["sizes"] else (deliv["tail"] if deliv["tail"] != "whole" else 1)
                info["first_chunk"] = first
                needed = None
                for f in list(range(first + 1, 24)) + [64]:
                    d3 = dict(deliv)
                    d3["sizes"] = [f] + list(deliv["sizes"][1:])
                    g3, o3, _, _ = do_read(w, plan, naming, d3, data, container, c, "r%dc" % ri)
                    evals += 1
                    if o3 == "ok" and g3 == want:
                        needed = f
                        break
                info["enlarged_ok_at"] = needed
                info["short_peek"] = bool(info["whole_ok"] and needed is not None)
            if outcome == "ok":
                j = next((i for i in range(min(len(got), len(want))) if got[i] != want[i]), None)
                detail = "%s via %s (%s delivery): %d records yielded, %d written%s" % (container + "/" + c, naming, deliv["kind"], len(got), len(want), "" if j is None else "; record %d differs: %s vs %s" % (j, short(got[j], 120), short(want[j], 120)))
            else:
                detail = "%s via %s (%s delivery, first raw read %s bytes): %s at stage %s after %d records; written %d" % (
                    container + "/" + c, naming, deliv["kind"], info.get("first_chunk", "all"), outcome, stage, len(got), len(want))  # fmt: skip
            add(_viol(inv, detail, info))
        # ---- two readers alive at the same time, consumed in lock-step ------------------------------------
        if len(files) > 1 and not (plain_close and not (written["w0"] and written["w1"])):
            from flow.record import RecordReader as _RR

            try:
                paths = {}
                pair_mode = len(plan["ops"]) % 3
                for wid in ("w0", "w1"):
                    d2, c2 = files[wid]
                    # one by its telling name and the other by a neutral one, or both by neutral names (both sniffed)
                    pth = "/simfs/r/pair-%s.%s%s" % (wid, stem, EXT[c2]) if (wid == "w0" and pair_mode == 0) else "/simfs/r/pair-%s.bin" % wid
                    w.fs.put(pth, d2)
                    paths[wid] = pth
                if pair_mode == 2:
                    # the first as an open file object (container and codec sniffed), the second by a neutral name
                    ra = _RR(fileobj=io.BytesIO(files["w0"][0]))
                    rb = _RR(pre + paths["w1"])
                else:
                    ra, rb = _RR(pre + paths["w0"]), _RR(pre + paths["w1"])
                w.keep += [ra, rb]
                ga, gb = [], []
                ia, ib = iter(ra), iter(rb)
                done_a = done_b = False
                while not (done_a and done_b):
                    if not done_a:
                        x = next(ia, None)
                        done_a = x is None
                        if x is not None:
                            ga.append(obs_record(x))
                    if not done_b:
                        y = next(ib, None)
                        done_b = y is None
                        if y is not None:
                            gb.append(obs_record(y))
                evals += 1
                w.probe("two-readers-alive")
                if ga != written["w0"] or gb != written["w1"]:
                    add(_viol("C11.naming-variance", "two readers open at the same time and consumed alternately: %d/%d and %d/%d records come back intact (codecs %s, %s)" % (
                        len(ga), len(written["w0"]), len(gb), len(written["w1"]), files["w0"][1], files["w1"][1]), {"two_readers": True}))  # fmt: skip
            except Exception as e:  # noqa: BLE001
                add(_viol("C11.naming-variance", "two readers open at the same time and consumed alternately raised %s: %s (codecs %s, %s)" % (
                    type(e).__name__, short(str(e), 100), files["w0"][1], files["w1"][1]), {"two_readers": True}))  # fmt: skip
        # ---- clause 3: garbage -----------------------------------------------------------------------
        for gi, g in enumerate(plan["garbage"]):
            gdata = make_garbage(g, plain0 if container == "stream" and plain0 else b"\x00" * 40)
            if g["kind"] == "shifted-header" and (container != "stream" or not want):
                continue
            naming = g["naming"]
            gcodec = "none"
            if naming == "ext-path":
                gcodec = g["codec"]
            got, outcome, cls, stage = do_read(w, plan, naming, {"sizes": [64], "tail": "whole", "kind": "19+"}, gdata, "stream", gcodec, "g%d" % gi)
            evals += 1
            w.log("garbage", g["kind"], naming, "->", "ok" if outcome == "ok" else "raise", len(got))
            w.state("garbage", g["kind"], naming, "ok" if outcome == "ok" else "raise")
            if outcome != "ok":
                w.stats["garbage-exc:" + outcome] += 1
            has_magic = refcodec.MAGIC in gdata
            if outcome in ("AttributeError", "NameError", "UnboundLocalError", "AssertionError", "ImportError", "NotImplementedError"):
                # refused, but not "with an adapter-not-found or format error": the code fell over instead of deciding
                add(_viol("C11.garbage-wrong-error", "%s garbage (%d bytes) via %s was not refused with an adapter-not-found or format error but made the library raise %s" % (
                    g["kind"], len(gdata), naming, outcome), {"kind": g["kind"], "exc": outcome}))  # fmt: skip
            elif got:
                add(_viol("C11.garbage-accepted", "%s garbage (%d bytes) via %s was misread as %d record(s): %s" % (g["kind"], len(gdata), naming, len(got), short(got[0], 120)), {"kind": g["kind"]}))
            elif outcome == "ok" and (not has_magic) and g["kind"] not in ("empty",):
                add(_viol("C11.garbage-accepted", "%s garbage (%d bytes, no record stream magic in it) via %s was accepted as an empty source" % (g["kind"], len(gdata), naming), {"kind": g["kind"]}))
            elif outcome == "ok" and g["kind"] == "empty" and naming != "ext-path":
                add(_viol("C11.garbage-accepted", "an empty input via %s was accepted as an empty source" % naming, {"kind": g["kind"]}))
            else:
                w.probe("garbage-refused")
        stats = collections.Counter(w.stats)
        states = set(w.states)
        digest = w.digest()
        trace = w.trace
    sample = {"cell": [container, codec], "writers": plan["writers"], "records": sum(1 for o in plan["ops"] if o["op"] == "write"),
              "reads": [(r["naming"], r["delivery"]["kind"], r["delivery"]["sizes"][:3]) for r in plan["reads"]], "garbage": [g["kind"] for g in plan["garbage"]]}  # fmt: skip
    return {"violations": viols, "digest": digest, "stats": stats, "states": states, "evals": evals, "sim_us": 0, "trace": trace, "sample": sample}


# -- minimisation / known findings ------------------------------------------------------------------
def shrink_candidates(plan):
    import copy

    if len(plan["reads"]) > 1:
        for i in range(len(plan["reads"])):
            c = copy.deepcopy(plan)
            del c["reads"][i]
            yield c
    if plan["garbage"]:
        for i in range(len(plan["garbage"])):
            c = copy.deepcopy(plan)
            del c["garbage"][i]
            yield c
    if len(plan["writers"]) > 1:
        c = copy.deepcopy(plan)
        c["writers"] = c["writers"][:1]
        c["ops"] = [o for o in c["ops"] if o["w"] == "w0"]
        yield c
    for i, r in enumerate(plan["reads"]):
        d = r["delivery"]
        if len(d["sizes"]) > 1:
            c = copy.deepcopy(plan)
            c["reads"][i]["delivery"]["sizes"] = d["sizes"][:1]
            yield c


def _single_shot_peek(plan, viol):
    """Known finding: the failure is a rejection before the first record, the same bytes are accepted
    under whole delivery, and the same schedule with only its first chunk enlarged is accepted too -
    i.e. the run fails only because the first raw read was shorter than the deciding magic."""
    info = viol.get("info") or {}
    if not info.get("short_peek"):
        return False
    if info.get("stage") not in ("construct", "iterate"):
        return False
    need = info.get("enlarged_ok_at")
    first = info.get("first_chunk")
    if need is None or first is None or not info.get("whole_ok"):
        return False
    # the shortest sufficient first chunk is the length of the deciding magic: 2 gzip, 3 bzip2, 4 lz4/zstd (once the
    # codec is recognised the decompressor's own peek reads until it has data); uncompressed: 3 for Avro, 19 for a
    # record stream.  A first read that is longer than that and still fails is NOT this finding.
    codec, container = info.get("codec"), info.get("container")
    if codec in NEED_FIRST:
        limit = NEED_FIRST[codec]
    else:
        limit = 3 if container == "avro" else 19
    return first < limit and need <= limit


KNOWN = {"single-shot-peek": _single_shot_peek}


def mutate(plan, rng):
    import copy

    p = copy.deepcopy(plan)
    r = rng.random()
    if r < 0.6 and p["reads"]:
        i = rng.randrange(len(p["reads"]))
        p["reads"][i]["delivery"] = gen_delivery(rng)
    elif r < 0.8:
        p["garbage"].append(gen_garbage(rng))
    else:
        p["read_buffer_size"] = rng.choice([8192, 64, 32, 20])
    return p
