"""C03 - every record is decoded with the descriptor it was written with.

Several writers (binary on a raw device, path based, gzip, JSON lines) are open at the same time
in one process and are stepped in a seeded interleaving over a descriptor pool built to collide
(same name / different fields, coinciding identifiers, nested-only and grouped-only types, equal
descriptors created twice).  Readers read what is already on the simulated disk *between* the
writers' steps.  See DESIGN.md 5.1.
"""

import collections
import io
import itertools

from .. import gen, refcodec
from ..observe import obs_record, obs_value, short
from ..plan import Pool
from ..world import World

NAME = "c03_descriptors"
PROP = "C03"
LEVEL = "exploration"
RULE = (
    "low run indices enumerate systematically every history of <= 3 writes over 2 concurrently open writers over a fixed core pool of "
    "colliding descriptors (per writer kind); higher indices draw seeded random interleavings (<= 40 ops, <= 4 writers of mixed kinds, "
    "0..2 interleaved readers, flush/close placement) over a seeded pool. One evaluation = one history executed and all its streams "
    "checked with the independent frame walker and the library's reader. A state is distinct by (writer kind, per-stream sequence of "
    "descriptor-registry events: new / same-name-redefinition / identifier-coincidence / nested / grouped, bucketed to 6 events)."
)
ASSUMPTIONS = [
    "identifier coincidences are generated between records of different record trees only: two coinciding descriptors inside one nested/grouped record cannot be represented by the wire format at all",
    "values are drawn from string/varint/uint32/boolean/stringlist so that value identity (C01/C14) is not what is being decided",
    "GC-driven finalisation of writers is kept out of runs (gc disabled during a run)",
]
EXPECTED_PROBES = ["nested-descriptor-emitted", "same-name-redefinition", "identifier-coincidence", "reader-between-writes", "json-nested", "grouped-members", "equal-descriptor-twice", "same-object-to-two-writers", "refused-write-then-continue", "io-refused-write-then-continue", "field-less-type"]

VALUE_TYPES = ["string", "varint", "boolean", "uint32"]
KINDS = ["bin-raw", "bin-path", "bin-gz", "json", "json-faulty"]


def budget(tier):
    return 40000 if tier == "quick" else 3000000


def wall_cap(tier):
    return 240 if tier == "quick" else 600


# -- pools --------------------------------------------------------------------------------------
def core_pool():
    name, ca, cb = gen.hash_collision_pair()
    amb = gen.concat_ambiguity_pairs()
    pool = {
        "A0": ["t/a", [["string", "s"]]],
        "A1": ["t/a", [["string", "s"], ["varint", "n"]]],
        "A2": ["t/a", [["varint", "s"]]],
        "B0": [amb[0][0], amb[0][1]],
        "B1": [amb[0][0], amb[0][2]],
        "X0": [name, ca],
        "X1": [name, cb],
        "E0": ["t/a", [["string", "s"]]],  # equal to A0, a second descriptor object
    }
    return pool


def rich_pool(rng):
    pool = core_pool()
    amb = gen.concat_ambiguity_pairs()
    pool["B2"] = [amb[1][0], amb[1][1]]
    pool["B3"] = [amb[1][0], amb[1][2]]
    # children that occur only nested; two of them share a name
    pool["C0"] = ["n/child", [["string", "v"]]]
    pool["C1"] = ["n/child", [["string", "v"], ["boolean", "f"]]]
    pool["C2"] = ["n/other", [["varint", "k"]]]
    pool["H0"] = ["n/holder", [["string", "tag"], ["record", "child"]]]
    pool["H1"] = ["n/list", [["record[]", "children"], ["varint", "n"]]]
    pool["H2"] = ["n/holder", [["record", "child"], ["record", "second"]]]
    # members that occur only inside grouped records
    pool["M0"] = ["g/m", [["string", "a"]]]
    pool["M1"] = ["g/m", [["string", "b"], ["varint", "c"]]]
    pool["M2"] = ["g/other", [["uint32", "d"]]]
    # names that differ only in "/" versus "_" (they map to the same Python class name) with identical fields
    pool["S0"] = ["s/tw", [["string", "v"], ["varint", "n"]]]
    pool["S1"] = ["s_tw", [["string", "v"], ["varint", "n"]]]
    # legal field-less types, one of them under the name of a type that has fields
    pool["Z0"] = ["z/marker", []]
    pool["Z1"] = ["t/a", []]
    for i in range(rng.choice([0, 1, 2])):
        pool["R%d" % i] = [rng.choice(["t/a", "r/x", "g/m", "n/child"]), gen.gen_fields(rng, VALUE_TYPES, 1, 3)]
    return pool


def gen_vals(rng, pool, key):
    name, fields = pool[key]
    out = []
    used = set()
    for typ, _ in fields:
        if typ == "record":
            ck = rng.choice(["C0", "C1", "C2", "A0", "A1", "B0", "B1", "X0", "X1", "Z0"])
            ident = (pool[ck][0], gen.desc_hash(pool[ck][0], pool[ck][1]))
            if ident in used:  # two coinciding descriptors inside one record cannot be represented
                ck = "C2"
            used.add(ident)
            out.append({"$rec": [ck, gen_vals(rng, pool, ck)]})
        elif typ == "record[]":
            n = rng.choice([0, 1, 2, 3])
            items = []
            for _ in range(n):
                ck = rng.choice(["C0", "C1", "C2"])
                items.append({"$rec": [ck, gen_vals(rng, pool, ck)]})
            out.append({"$l": items})
        elif typ == "stringlist":
            out.append({"$l": [gen.gen_text(rng, rng.randrange(1, 3), ascii_only=True) for _ in range(rng.choice([0, 1, 2]))]})
        elif typ == "string":
            out.append(gen.gen_text(rng, rng.randrange(0, 5), ascii_only=True) if rng.random() < 0.9 else None)
        else:
            out.append(gen.gen_value(rng, typ, big=False))
    return out


def simple_vals(pool, key, salt):
    name, fields = pool[key]
    out = []
    for typ, _ in fields:
        if typ == "stringlist":
            out.append({"$l": ["p%d" % salt, "q"]})
        elif typ == "string":
            out.append("v%d" % salt)
        elif typ == "boolean":
            out.append(bool(salt % 2))
        else:
            out.append(salt + 7)
    return out


CORE_KEYS = ["A0", "A1", "A2", "B0", "B1", "X0", "X1", "E0"]


def n_systematic():
    k = len(CORE_KEYS) * 2
    per_kind = k + k * k + k * k * k
    return per_kind * 2  # bin-raw and json


def systematic(index):
    k = len(CORE_KEYS) * 2
    per_kind = k + k * k + k * k * k
    kind = ["bin-raw", "json"][index // per_kind]
    j = index % per_kind
    if j < k:
        steps = [j]
    elif j < k + k * k:
        j -= k
        steps = [j // k, j % k]
    else:
        j -= k + k * k
        steps = [j // (k * k), (j // k) % k, j % k]
    pool = core_pool()
    ops = []
    for n, s in enumerate(steps):
        actor = "w%d" % (s % 2)
        key = CORE_KEYS[s // 2]
        ops.append({"op": "write", "actor": actor, "desc": key, "values": simple_vals(pool, key, n)})
    ops += [{"op": "close", "actor": "w0"}, {"op": "close", "actor": "w1"}]
    return {"actors": {"w0": kind, "w1": kind}, "pool": pool, "ops": ops, "systematic": True}


def generate(rng, tier, index):
    if index < n_systematic():
        return systematic(index)
    pool = rich_pool(rng)
    n_w = rng.choice([1, 2, 2, 3, 4])
    actors = {}
    fail_calls = {}
    jopts = {}
    for i in range(n_w):
        actors["w%d" % i] = rng.choice(KINDS + ["json-opt"])
        if actors["w%d" % i] == "json-opt":
            # the documented `descriptors` option of the JSON writer, in spellings a user might type; whatever a
            # spelling means, a record line that refers to a definition must find it earlier in the stream
            jopts["w%d" % i] = rng.choice(["true", "1", "True", "yes", "on", "no", "off", "false", "0", "FALSE"])
        if actors["w%d" % i] == "json-faulty":
            fail_calls["w%d" % i] = sorted(set(rng.randrange(0, 12) for _ in range(rng.choice([1, 1, 2]))))
    keys = sorted(pool)
    flat = [k for k in keys if k[0] in "ABXERZS"]
    holders = [k for k in keys if k[0] == "H"]
    focus = rng.choice(["collide", "nested", "grouped", "mixed", "mixed"])
    n_ops = rng.choice([2, 3, 4, 6, 9, 14, 25, 40]) if tier != "quick" else rng.choice([2, 3, 4, 5, 7, 10, 16])
    ops = []
    open_actors = sorted(actors)
    for _ in range(n_ops):
        if not open_actors:
            break
        r = rng.random()
        a = rng.choice(open_actors)
        if r < 0.72:
            c = rng.random()
            if focus == "collide" or (focus == "mixed" and c < 0.45):
                key = rng.choice(flat)
                ops.append({"op": "write", "actor": a, "desc": key, "values": gen_vals(rng, pool, key)})
            elif focus == "nested" or (focus == "mixed" and c < 0.75):
                key = rng.choice(holders + flat[:3])
                ops.append({"op": "write", "actor": a, "desc": key, "values": gen_vals(rng, pool, key)})
            else:
                members = []
                used = set()
                for _ in range(rng.choice([1, 2, 2, 3])):
                    mk = rng.choice(["M0", "M1", "M2", "A0", "A1", "B0", "B1", "X0", "X1", "Z0"])
                    ident = (pool[mk][0], gen.desc_hash(pool[mk][0], pool[mk][1]))
                    if ident in used:
                        continue
                    used.add(ident)
                    members.append({"$rec": [mk, gen_vals(rng, pool, mk)]})
                ops.append({"op": "write", "actor": a, "group": rng.choice(["grp/x", "g/m", "t/a"]), "members": members})
            if len(open_actors) > 1 and rng.random() < 0.15:
                # the same record *object* is handed to a second writer (a tee)
                ops[-1]["tee"] = [x for x in open_actors if x != a][: rng.choice([1, 2])]
            if rng.random() < 0.08:
                # a write refused inside pack(): a holder whose nested value cannot be packed; the caller goes on
                # ... or a record of a coinciding-identifier type whose list value cannot be packed
                ops.append({"op": "write_bad", "actor": a, "desc": rng.choice(holders + ["B0", "B0"])})
        elif r < 0.82:
            ops.append({"op": "flush", "actor": a})
        elif r < 0.92:
            ops.append({"op": "read", "src": rng.choice(sorted(actors))})
        else:
            ops.append({"op": "close", "actor": a})
            if rng.random() < 0.7:
                open_actors.remove(a)
    for a in sorted(actors):
        ops.append({"op": "close", "actor": a})
    return {"actors": actors, "pool": pool, "ops": ops, "fail_calls": fail_calls, "jopts": jopts}


# -- expectations computed from the plan (harness side, no library) -------------------------------
def ident_of(pool, key):
    name, fields = pool[key]
    return (name, gen.desc_hash(name, fields))


def desc_of(pool, key):
    name, fields = pool[key]
    return (name, tuple((t, n) for t, n in fields))


def nested_descs(pool, values, out):
    for v in values:
        if isinstance(v, dict) and "$rec" in v:
            out.append(desc_of(pool, v["$rec"][0]))
            nested_descs(pool, v["$rec"][1], out)
        elif isinstance(v, dict) and "$l" in v:
            nested_descs(pool, v["$l"], out)


def expected_of(pool, op):
    """-> dict(kind=REC|GROUPED, top=(name, fields) or None, members=[...], nested=[...])"""
    if "group" in op:
        members = [desc_of(pool, m["$rec"][0]) for m in op["members"]]
        nested = []
        for m in op["members"]:
            nested_descs(pool, m["$rec"][1], nested)
        return {"kind": "GROUPED", "name": op["group"], "members": members, "nested": nested}
    nested = []
    nested_descs(pool, op["values"], nested)
    return {"kind": "REC", "top": desc_of(pool, op["desc"]), "nested": nested}


def _viol(inv, detail, info=None):
    return {"invariant": inv, "detail": detail, "info": info or {}}


def check_binary_stream(data, expected, pool_descs, sfx, w, complete=True):
    """Walk the stream with the independent codec against the per-stream model."""
    v = []
    frames, stop, reason = refcodec.walk(data)
    if complete and reason != "end":
        v.append(_viol("C03.desc-frame-incomplete" + sfx, "stream does not end on a frame boundary: %s at offset %d" % (reason, stop)))
    registry = {}
    names = {}
    ri = 0
    events = []
    for f in frames:
        if f.kind == "DESC":
            name, fields = f.info
            ident = (name, gen.desc_hash(name, [[t, n] for t, n in fields]))
            if ident in registry and registry[ident] != (name, fields):
                events.append("coincide")
                w.probe("identifier-coincidence")
            elif name in names and (name, fields) not in names[name]:
                events.append("redef")
                w.probe("same-name-redefinition")
            else:
                events.append("new")
            registry[ident] = (name, fields)
            names.setdefault(name, set()).add((name, fields))
        elif f.kind in ("REC", "GROUPED"):
            if ri >= len(expected):
                v.append(_viol("C03.rec-other-descriptor" + sfx, "stream holds more record frames (%d) than records were written (%d)" % (ri + 1, len(expected))))
                break
            exp = expected[ri]
            ri += 1
            if f.kind == "REC":
                idents = [f.info["ident"]] + list(f.info["nested"])
                want = [exp.get("top")] + list(exp["nested"]) if exp["kind"] == "REC" else None
                if f.info["nested"]:
                    events.append("nested")
            else:
                idents = list(f.info["members"]) + list(f.info["nested"])
                want = list(exp["members"]) + list(exp["nested"]) if exp["kind"] == "GROUPED" else None
                events.append("grouped")
                w.probe("grouped-members")
            if want is None or len(want) != len(idents):
                v.append(_viol("C03.rec-other-descriptor" + sfx, "record frame #%d has shape %s/%d idents, written record has %s" % (ri - 1, f.kind, len(idents), exp["kind"])))
                continue
            for ident, wd in zip(idents, want):
                if not (isinstance(ident, tuple) and len(ident) == 2):
                    v.append(_viol("C03.rec-before-desc" + sfx, "record frame #%d carries a non-versioned identifier %r" % (ri - 1, ident)))
                    continue
                got = registry.get(ident)
                if got is None:
                    v.append(_viol("C03.rec-before-desc" + sfx, "record frame #%d at offset %d needs descriptor %r but no descriptor frame with that identifier precedes it in this stream" % (ri - 1, f.start, ident),
                                   {"ident": list(ident), "want": [wd[0], [list(x) for x in wd[1]]]}))  # fmt: skip
                elif got != wd:
                    v.append(_viol("C03.rec-other-descriptor" + sfx, "record frame #%d at offset %d (identifier %r) will be decoded with %r but was written with %r" % (ri - 1, f.start, ident, got, wd),
                                   {"ident": list(ident), "got": [got[0], [list(x) for x in got[1]]], "want": [wd[0], [list(x) for x in wd[1]]]}))  # fmt: skip
    if complete and ri < len(expected) and not v:
        v.append(_viol("C03.rec-before-desc" + sfx, "only %d of %d written records have a record frame in the stream" % (ri, len(expected))))
    return v, events


def check_json_stream(text, expected, sfx, w, complete=True):
    v = []
    try:
        items = refcodec.walk_jsonl(text)
    except Exception as e:  # noqa: BLE001
        if complete:
            return [_viol("C03.desc-frame-incomplete@json", "JSON lines output is not parseable: %r" % (e,))], []
        items = []
        for line in text.splitlines()[:-1]:
            try:
                items += refcodec.walk_jsonl(line)
            except Exception:  # noqa: BLE001
                break
    registry = {}
    names = {}
    ri = 0
    events = []

    def nested_idents(obj, out):
        if isinstance(obj, dict):
            for k, x in obj.items():
                if isinstance(x, dict) and x.get("_type") == "record":
                    out.append(tuple(x["_recorddescriptor"]))
                    nested_idents(x, out)
                elif isinstance(x, list):
                    for y in x:
                        if isinstance(y, dict) and y.get("_type") == "record":
                            out.append(tuple(y["_recorddescriptor"]))
                            nested_idents(y, out)

    for kind, info in items:
        if kind == "DESC":
            name, fields = info
            ident = (name, gen.desc_hash(name, [[t, n] for t, n in fields]))
            if ident in registry and registry[ident] != (name, fields):
                events.append("coincide")
                w.probe("identifier-coincidence")
            elif name in names and (name, fields) not in names[name]:
                events.append("redef")
                w.probe("same-name-redefinition")
            else:
                events.append("new")
            registry[ident] = (name, fields)
            names.setdefault(name, set()).add((name, fields))
        elif kind == "REC":
            if ri >= len(expected):
                v.append(_viol("C03.rec-other-descriptor@json", "more record lines than records written"))
                break
            exp = expected[ri]
            ri += 1
            inner = []
            nested_idents(info["obj"], inner)
            if inner:
                events.append("nested")
                w.probe("json-nested")
            idents = [info["ident"]] + inner
            if exp["kind"] == "GROUPED":
                # JSON carries a grouped record as one flat record of its flat descriptor
                events.append("grouped")
                want = [exp["flat"]]
                idents = idents[:1]
            else:
                want = [exp["top"]] + list(exp["nested"])
            if len(want) != len(idents):
                v.append(_viol("C03.rec-other-descriptor@json", "record line #%d has %d record identifiers, written record has %d" % (ri - 1, len(idents), len(want))))
                continue
            for ident, wd in zip(idents, want):
                got = registry.get(ident)
                if got is None:
                    v.append(_viol("C03.rec-before-desc@json", "record line #%d needs descriptor %r but no descriptor line with that identifier precedes it" % (ri - 1, ident),
                                   {"ident": list(ident), "want": [wd[0], [list(x) for x in wd[1]]]}))  # fmt: skip
                elif got != wd:
                    v.append(_viol("C03.rec-other-descriptor@json", "record line #%d (identifier %r) will be decoded with %r but was written with %r" % (ri - 1, ident, got, wd),
                                   {"ident": list(ident), "got": [got[0], [list(x) for x in got[1]]], "want": [wd[0], [list(x) for x in wd[1]]]}))  # fmt: skip
    if complete and ri < len(expected) and not v:
        v.append(_viol("C03.rec-before-desc@json", "only %d of %d written records have a record line" % (ri, len(expected))))
    return v, events


def flat_obs(rec):
    """Observation of a grouped record as JSON carries it: the flat descriptor and a field dict."""
    d = rec._desc
    return [d.name, [[t, n] for t, n in d.get_field_tuples()], sorted([k, obs_value(getattr(rec, k))] for k in rec._asdict().keys())]


def plain_as_flat(rec):
    d = rec._desc
    return [d.name, [[t, n] for t, n in d.get_field_tuples()], sorted([k, obs_value(getattr(rec, k))] for k in rec.__slots__)]


class FaultyText(io.TextIOBase):
    """A text sink that refuses chosen write calls (nothing of the call is stored)."""

    def __init__(self, world, fail_calls, label):
        super().__init__()
        self._world = world
        self.fail = set(fail_calls)
        self.n = 0
        self.chunks = []
        self.refused = []  # payloads of refused calls
        self.reported = []  # ... of those, the ones whose API call then raised (the caller was told)
        self.label = label

    def writable(self):
        return True

    def write(self, s):
        i = self.n
        self.n += 1
        if i in self.fail:
            import errno

            self.refused.append(s)
            self._world.fault("fp_write_error")
            self._world.log(self.label, "fp.write#%d" % i, "-> OSError(ENOSPC)")
            raise OSError(errno.ENOSPC, "No space left on device (injected)")
        self.chunks.append(s)
        return len(s)

    def getvalue(self):
        return "".join(self.chunks)


class Actor:
    def __init__(self, w, aid, kind, fail_calls=(), jopt=None):
        from flow.record import RecordStreamWriter, RecordWriter

        self.jopt = None

        self.w = w
        self.id = aid
        self.kind = kind
        self.expected = []
        self.written_obs = []
        self.closed = False
        self.raw = None
        self.faulty = False
        self.sink = None
        if kind == "bin-raw":
            self.raw = w.new_raw("wb", label=aid + ".raw")
            self.writer = RecordStreamWriter(self.raw)
            self.path = None
        elif kind == "bin-path":
            self.path = "/simfs/%s.records" % aid
            self.writer = RecordWriter(self.path)
        elif kind == "bin-gz":
            self.path = "/simfs/%s.records.gz" % aid
            self.writer = RecordWriter(self.path)
        elif kind == "json":
            self.path = "/simfs/%s.jsonl" % aid
            self.writer = RecordWriter("jsonfile://" + self.path)
        elif kind == "json-opt":
            self.path = "/simfs/%s.jsonl" % aid
            self.jopt = jopt or "true"
            self.writer = RecordWriter("jsonfile://%s?descriptors=%s" % (self.path, self.jopt))
            self.kind = "json"
            w.probe("json-descriptors-option")
        elif kind == "json-faulty":
            from flow.record.adapter.jsonfile import JsonfileWriter

            self.path = "/simfs/%s.jsonl" % aid
            self.sink = FaultyText(w, fail_calls, aid)
            self.writer = JsonfileWriter(self.sink)
            self.kind = "json"
            self.faulty = True
        else:
            raise ValueError(kind)
        w.keep.append(self.writer)

    def device(self):
        if self.raw is not None:
            return bytes(self.raw._inode.data)
        if self.sink is not None:
            data = self.sink.getvalue().encode("utf-8", "surrogateescape")
            self.w.fs.put(self.path, data)  # so that the path based reader can be used on it
            return data
        return self.w.fs.get(self.path)

    def damaged(self):
        """A refused call that carried a descriptor line: later records of that type legitimately cannot be
        decoded (the stream lost a definition to the fault) - C04's territory, not judged here."""
        if self.sink is None:
            return False
        for payload in self.sink.reported:
            lines = [ln for ln in payload.splitlines() if ln.strip()]
            # excused only when the refused call carried nothing but definitions; a call that bundles a record
            # with its definitions and then forgets them is the writer's doing
            if lines and all('"_type": "recorddescriptor"' in ln for ln in lines):
                return True
        return False

    def plain(self):
        """-> (bytes of the uncompressed stream so far, complete?)"""
        d = self.device()
        if self.kind == "bin-gz":
            from .c04_crash import recover_plain

            return recover_plain(d, True)
        return d, True


def execute(plan, keep_log=False):
    from flow.record import GroupedRecord, RecordReader, RecordStreamReader

    viols = []
    states = set()

    def add(vs, where):
        for v in vs:
            if not any(x["invariant"] == v["invariant"] for x in viols):
                v = dict(v)
                v["detail"] = "%s: %s" % (where, v["detail"])
                viols.append(v)

    with World(keep_log=keep_log) as w:
        pool = Pool(plan["pool"])
        pj = plan["pool"]
        actors = {}
        for aid in sorted(plan["actors"]):
            actors[aid] = Actor(w, aid, plan["actors"][aid], (plan.get("fail_calls") or {}).get(aid, ()), (plan.get("jopts") or {}).get(aid))
        w.log("plan", "actors", " ".join("%s=%s" % (a, plan["actors"][a]) for a in sorted(actors)), "ops=%d" % len(plan["ops"]))
        last_writer = None
        for oi, op in enumerate(plan["ops"]):
            kind = op["op"]
            if kind == "write":
                a = actors[op["actor"]]
                if a.closed:
                    continue
                if "group" in op:
                    members = [pool.make(m["$rec"][0], m["$rec"][1]) for m in op["members"]]
                    if not members:
                        continue
                    rec = GroupedRecord(op["group"], members)
                else:
                    rec = pool.make(op["desc"], op["values"])
                    if op["desc"] == "E0":
                        w.probe("equal-descriptor-twice")
                    if op["desc"] in ("Z0", "Z1"):
                        w.probe("field-less-type")
                exp = expected_of(pj, op)
                if exp["kind"] == "GROUPED":
                    fd = rec._desc
                    exp["flat"] = (fd.name, tuple((t, n) for t, n in fd.get_field_tuples()))
                targets = [a] + [actors[t] for t in op.get("tee", []) if t in actors and not actors[t].closed]
                if len(targets) > 1:
                    w.probe("same-object-to-two-writers")
                for a in targets:
                    n_refused = len(a.sink.refused) if a.sink is not None else 0
                    try:
                        a.writer.write(rec)
                        a.expected.append(exp)
                        if a.kind == "json" and exp["kind"] == "GROUPED":
                            a.written_obs.append(flat_obs(rec))
                        else:
                            a.written_obs.append(obs_record(rec))
                        w.log(a.id, "write", op.get("desc") or ("group:" + op["group"]), "-> ok")
                    except Exception as e:  # noqa: BLE001
                        w.log(a.id, "write", op.get("desc") or ("group:" + op["group"]), "->", type(e).__name__)
                        if a.faulty and isinstance(e, OSError):
                            w.probe("io-refused-write-then-continue")  # refused by the injected fault: not in the model
                            a.sink.reported += a.sink.refused[n_refused:]  # the caller was told about these
                        else:
                            add([_viol("C03.write-raises", "write of a valid record raised %s: %s" % (type(e).__name__, e))], "step %d %s" % (oi, a.id))
                if exp["nested"]:
                    w.probe("nested-descriptor-emitted")
                last_writer = a.id
            elif kind == "write_bad":
                a = actors[op["actor"]]
                if a.closed:
                    continue
                # the nested value is not packable: pack() must raise and the stream must stay usable
                d = pool.desc[op["desc"]]
                name, fields = pj[op["desc"]]
                vals = []
                for typ, _ in fields:
                    vals.append({1, 2} if typ == "record" else ([{3}] if typ in ("record[]", "stringlist") else ("bad" if typ == "string" else 1)))
                n_refused = len(a.sink.refused) if a.sink is not None else 0
                try:
                    rec = d(*vals)
                    a.writer.write(rec)
                    w.log(a.id, "write_bad", op["desc"], "-> ok (unexpected)")
                    add([_viol("C03.write-raises", "a record holding an unpackable nested value was written without error")], "step %d %s" % (oi, a.id))
                except Exception as e:  # noqa: BLE001
                    if a.sink is not None:
                        a.sink.reported += a.sink.refused[n_refused:]  # the call raised: the caller was told
                    w.probe("refused-write-then-continue")
                    w.log(a.id, "write_bad", op["desc"], "->", type(e).__name__)
            elif kind == "flush":
                a = actors[op["actor"]]
                if not a.closed:
                    a.writer.flush()
                    w.log(a.id, "flush")
            elif kind == "close":
                a = actors[op["actor"]]
                if not a.closed:
                    a.writer.flush()
                    a.writer.close()
                    a.closed = True
                    w.log(a.id, "close")
            elif kind == "read":
                a = actors[op["src"]]
                if a.damaged():
                    continue
                if any(not x.closed for x in actors.values() if x is not a) or not a.closed:
                    w.probe("reader-between-writes")
                # an interleaved reader: reads what is on disk now, creating descriptors on the way
                data, _ = a.plain()
                n = 0
                try:
                    if a.jopt and not _has_typed_lines(data):
                        continue  # written without definitions and without references to them: nothing for C03 to say
                    if a.kind == "json":
                        text = data.decode("utf-8", "surrogateescape")
                        lines = text.split("\n")
                        text = "\n".join(lines[:-1]) + ("\n" if len(lines) > 1 else "")
                        w.fs.put("/simfs/peek.jsonl", text.encode("utf-8", "surrogateescape"))
                        rd = RecordReader("jsonfile:///simfs/peek.jsonl")
                    else:
                        spans = refcodec.frame_spans(data)
                        cut = spans[-1][1] if spans else 0
                        rd = RecordStreamReader(io.BytesIO(data[:cut])) if cut else None
                    got = []
                    if rd is not None:
                        for r in rd:
                            got.append(plain_as_flat(r) if (a.kind == "json") else obs_record(r))
                    n = len(got)
                    want = a.written_obs[:n]
                    cmp_want = [_json_norm(x) for x in want] if a.kind == "json" else want
                    if got != cmp_want:
                        j = next((i for i in range(min(len(got), len(cmp_want))) if got[i] != cmp_want[i]), None)
                        if j is not None:
                            inv = "C03.readback-descriptor" if got[j][:2] != cmp_want[j][:2] else "C03.readback-values"
                            add([_viol(inv + ("@json" if a.kind == "json" else ""), "interleaved reader: record %d comes back as %s, written as %s" % (j, short(got[j], 220), short(cmp_want[j], 220)))], "step %d read %s" % (oi, a.id))
                    w.log("reader", "read", a.id, "n=%d" % n)
                except Exception as e:  # noqa: BLE001
                    w.log("reader", "read", a.id, "->", type(e).__name__)
                    add([_viol("C03.readback-raises" + ("@json" if a.kind == "json" else ""), "interleaved reader on the flushed part of %s raised %s: %s" % (a.id, type(e).__name__, short(str(e), 160)))], "step %d read %s" % (oi, a.id))
        # ---- final checks on every stream ---------------------------------------------------------
        for aid in sorted(actors):
            a = actors[aid]
            if not a.closed:
                try:
                    a.writer.flush()
                    a.writer.close()
                except Exception:  # noqa: BLE001
                    pass
                a.closed = True
            if a.damaged():
                w.probe("descriptor-line-lost-to-fault")
                continue
            data, complete = a.plain()
            sfx = "@json" if a.kind == "json" else ""
            if a.jopt and not _has_typed_lines(data):
                w.probe("json-without-definitions")
                continue
            if a.kind == "json":
                vs, events = check_json_stream(data.decode("utf-8", "surrogateescape"), a.expected, sfx, w)
            else:
                if not a.expected and not data:
                    vs, events = [], []
                else:
                    vs, events = check_binary_stream(data, a.expected, None, sfx, w)
            add(vs, "stream of %s (%s)" % (aid, a.kind))
            states.add(a.kind + ":" + ",".join(events[:6]))
            # the library's own reader
            got = []
            try:
                if a.kind == "json":
                    rd = RecordReader("jsonfile://" + a.path)
                elif a.raw is not None:
                    rd = RecordStreamReader(io.BytesIO(data)) if data else None
                else:
                    rd = RecordReader(a.path) if (data or a.expected) else None
                if rd is not None:
                    # every other stream is consumed in two passes over the same reader object: the consumer stops
                    # after half of the records (break closes the generator) and comes back for the rest
                    stop_at = len(a.written_obs) // 2 if (len(plan["ops"]) + len(a.written_obs)) % 2 == 0 else 0
                    for r in rd:
                        got.append(plain_as_flat(r) if a.kind == "json" else obs_record(r))
                        if stop_at and len(got) == stop_at:
                            break
                    if stop_at and len(got) == stop_at:
                        w.probe("reader-resumed-after-break")
                        for r in rd:
                            got.append(plain_as_flat(r) if a.kind == "json" else obs_record(r))
                want = [_json_norm(x) for x in a.written_obs] if a.kind == "json" else a.written_obs
                w.log("final", aid, "n=%d" % len(got), "want=%d" % len(want))
                if got != want:
                    j = next((i for i in range(min(len(got), len(want))) if got[i] != want[i]), None)
                    if j is None:
                        add([_viol("C03.readback-descriptor" + sfx, "reader yields %d records, %d were written" % (len(got), len(want)))], "read-back of %s (%s)" % (aid, a.kind))
                    else:
                        inv = "C03.readback-descriptor" if got[j][:2] != want[j][:2] else "C03.readback-values"
                        add([_viol(inv + sfx, "record %d comes back as %s, was written as %s" % (j, short(got[j], 240), short(want[j], 240)))], "read-back of %s (%s)" % (aid, a.kind))
            except Exception as e:  # noqa: BLE001
                w.log("final", aid, "->", type(e).__name__)
                add([_viol("C03.readback-raises" + sfx, "reading the finished stream raised %s: %s (after %d of %d records)" % (type(e).__name__, short(str(e), 160), len(got), len(a.written_obs)))], "read-back of %s (%s)" % (aid, a.kind))
        stats = collections.Counter(w.stats)
        digest = w.digest()
        trace = w.trace
    sample = {"actors": plan["actors"], "ops": [_op_str(o) for o in plan["ops"]][:24]}
    return {"violations": viols, "digest": digest, "stats": stats, "states": states, "evals": 1, "sim_us": 0, "trace": trace, "sample": sample if len(plan["ops"]) > 4 else None}


def _has_typed_lines(data):
    """Does a JSON-lines output contain definition lines or record lines that refer to a definition?"""
    try:
        return any(k in ("DESC", "REC") for k, _ in refcodec.walk_jsonl(data.decode("utf-8", "surrogateescape")))
    except Exception:  # noqa: BLE001
        return True


def _json_norm(o):
    """Written observation -> the shape plain_as_flat() gives for a record read from JSON."""
    if o and o[0] == "grouped":
        return o
    name, fields, vals = o
    return [name, fields, sorted(vals)]


def _op_str(o):
    if o["op"] == "write_bad":
        return "%s.write(%s with unpackable child -> refused)" % (o["actor"], o["desc"])
    if o["op"] == "write":
        return "%s.write(%s)" % (o["actor"], o.get("desc") or "group[%s]" % ",".join(m["$rec"][0] for m in o["members"]))
    return "%s.%s" % (o.get("actor") or o.get("src"), o["op"])


# -- minimisation / known findings ------------------------------------------------------------------
def shrink_candidates(plan):
    import copy

    for aid, kind in sorted(plan["actors"].items()):
        if kind in ("bin-path", "bin-gz"):
            c = copy.deepcopy(plan)
            c["actors"][aid] = "bin-raw"
            yield c
    for i, o in enumerate(plan["ops"]):
        if o.get("tee"):
            c = copy.deepcopy(plan)
            del c["ops"][i]["tee"]
            yield c
    used = set(o.get("actor") or o.get("src") for o in plan["ops"] if o["op"] in ("write", "read", "write_bad"))
    for o in plan["ops"]:
        used |= set(o.get("tee", []))
    for aid in sorted(plan["actors"]):
        if aid not in used and len(plan["actors"]) > 1:
            c = copy.deepcopy(plan)
            del c["actors"][aid]
            c["ops"] = [o for o in c["ops"] if (o.get("actor") or o.get("src")) != aid]
            yield c
    for i, o in enumerate(plan["ops"]):
        if o["op"] == "write" and "group" in o and len(o["members"]) > 1:
            for j in range(len(o["members"])):
                c = copy.deepcopy(plan)
                del c["ops"][i]["members"][j]
                yield c


def _coincidence(plan, viol):
    """Known-finding classifier: the two descriptors involved have equal (name, hash32) and
    different field tuples."""
    info = viol.get("info") or {}
    got, want = info.get("got"), info.get("want")
    if not got or not want:
        return False
    return got[0] == want[0] and got[1] != want[1] and gen.desc_hash(got[0], got[1]) == gen.desc_hash(want[0], want[1])


KNOWN = {"identifier-coincidence": _coincidence}


def mutate(plan, rng):
    from ..driver import mutate_ops

    p = mutate_ops(plan, rng)
    for a in sorted(p["actors"]):
        if not any(o["op"] == "close" and o.get("actor") == a for o in p["ops"][-len(p["actors"]):]):
            p["ops"].append({"op": "close", "actor": a})
    if rng.random() < 0.2:
        a = rng.choice(sorted(p["actors"]))
        p["actors"][a] = rng.choice(KINDS)
    p.pop("systematic", None)
    return p
