"""C16 - rdump output is the specified slice of the filtered input.

``flow.record.tools.rdump.main(argv)`` runs in-process inside a World: sources live in SimFS (each
with its own fault: missing, empty, garbage, directory, truncated at a frame-relative offset, raw
read error at call j, stdin with a delivery schedule), stdout/stdin are simulated, -w targets are
in SimFS.  The expected output is computed by a reference pipeline over lists
(intact prefix per source -> filter -> slice -> metadata overrides -> projection -> expansion) and
compared with what rdump produced, decoded independently per output form.  See DESIGN.md 5.4.
"""

import bz2
import collections
import csv
import datetime as _dt
import gzip
import io
import itertools
import json
import re
import sys

import lz4.frame
import zstandard

from .. import refcodec
from ..observe import obs_value, short
from ..simfs import HandlePlan
from ..world import World

NAME = "c16_rdump"
PROP = "C16"
LEVEL = "exploration"
RULE = (
    "low run indices enumerate every placement (all distinct permutations) of one or two faulty sources - missing, empty, garbage, directory, "
    "truncated, read error, unreadable JSON - among two good ones, cycling through output modes; higher indices draw seeded source lists "
    "(1..6 sources over 5 codecs, JSON lines, stdin, faults with frame-relative cut offsets) x option mixes (-s from a safe selector grammar, "
    "-n, --skip, -c, -F, -X, --record-source, --record-classification, --multi-timestamp, -l, --split/--suffix-length, 8 output forms). One "
    "evaluation = one rdump.main run decoded and compared. Distinct state = (output mode, option-set signature, fault placement signature)."
)
ASSUMPTIONS = [
    "-c 0 (means unlimited in the code), duplicate names in -F, reserved names in -F/-X, Avro/SQLite as rdump targets and the metadata of timestamp-expanded records are outside the domain",
    "selectors come from a sub-language on which both engines agree with 'a comparison on a missing field is false' (C07/C08 are not decided here)",
    "stdin sources get a first raw read of >= 4096 bytes so that C11's single-shot-peek finding is not re-reported here",
    "for a compressed source with an injected read error only 'a prefix of its records, later sources unaffected' is demanded; for plain sources the exact prefix is computed from the delivered byte count",
    "values come from a domain whose round-trip identity holds on the pinned tree; text outputs are compared through the library's own str()/repr() of the source values",
]
EXPECTED_PROBES = ["faulty-first", "faulty-last", "faulty-between", "all-faulty", "truncated-nonempty-prefix", "skip-spans-source-boundary", "count-reached-before-failing-source",
                   "split-multiple-of-limit", "zero-records-with-writer", "stdin-source", "read-error-source", "multi-timestamp-expanded", "same-name-different-fields", "grouped-record-source", "corrupt-compressed-source", "pipe-source"]  # fmt: skip

UTC = _dt.timezone.utc
G = _dt.datetime(2030, 1, 1, tzinfo=UTC)

POOL = {
    "A": ["t/a", [["string", "s"], ["varint", "n"], ["datetime", "t"]]],
    "B": ["t/b", [["varint", "n"], ["string", "q"]]],
    "C": ["t/c", [["string", "s"], ["datetime", "t1"], ["datetime", "t2"]]],
    "A2": ["t/a", [["string", "s"], ["varint", "n"], ["string", "extra"]]],
    "D": ["t/d", [["boolean", "f"], ["string", "q"], ["varint", "n"]]],
    "T": ["t/t", [["string[]", "tags"], ["varint", "n"]]],
    # an identifier twin pair: same name, same 32-bit hash (concatenation ambiguity), different fields
    "P": ["t/amc", [["uint32", "a"], ["string", "b"]]],
    "Q": ["t/amc", [["string", "auint32b"]]],
}

# selector source, python predicate over the dict of the record's own (non-reserved) fields
M = object()
SELECTORS = [
    (None, lambda d: True),
    ("r.n == 2", lambda d: d.get("n", M) == 2),
    ("r.n != 2", lambda d: "n" in d and d["n"] != 2),
    ("r.s == 'x'", lambda d: d.get("s", M) == "x"),
    ("r.n < 3 and r.s != 'z'", lambda d: ("n" in d and d["n"] is not None and d["n"] < 3) and ("s" in d and d["s"] != "z")),
    ("r.q == 'q' or r.s == 'z'", lambda d: d.get("q", M) == "q" or d.get("s", M) == "z"),
    ("not r.n > 1", lambda d: not ("n" in d and d["n"] is not None and d["n"] > 1)),
    ("r.n in [1, 3]", lambda d: d.get("n", M) in [1, 3]),
    ("r.s in ['x', 'y'] and r.n > 0", lambda d: d.get("s", M) in ["x", "y"] and ("n" in d and d["n"] is not None and d["n"] > 0)),
    ("r.f", lambda d: bool(d.get("f", False))),
    ("r.extra == 'e1' or r.n == 4", lambda d: d.get("extra", M) == "e1" or d.get("n", M) == 4),
    ("'red' in r.tags", lambda d: "tags" in d and "red" in d["tags"]),
    ("r.s == 'NOT FOUND' or r.q == 'IN OR OUT'", lambda d: d.get("s", M) == "NOT FOUND" or d.get("q", M) == "IN OR OUT"),
    # helper functions about the record itself next to a field test: a record type without the field can still match
    ("name(r) == 't/b' or r.s == 'x'", lambda d: d["$name"] == "t/b" or d.get("s", M) == "x"),
    ("r.n == 2 or name(r) == 't/c'", lambda d: d.get("n", M) == 2 or d["$name"] == "t/c"),
    ("has_field(r, 'q') or r.s == 'z'", lambda d: "q" in d or d.get("s", M) == "z"),
    # generator expressions: the engines disagree on records that lack the field (C08), so these two are
    # only drawn for inputs in which every record has it (see generate)
    ("any(t == 'red' for t in r.tags)", lambda d: any(t == "red" for t in d["tags"])),
    ("any(t in ['red', 'green'] for t in r.tags) and r.n > 1", lambda d: any(t in ["red", "green"] for t in d["tags"]) and d["n"] > 1),
]
NEEDS_TAGS = {len(SELECTORS) - 2, len(SELECTORS) - 1}
FAULT_KINDS = ["missing", "empty", "garbage", "dir", "trunc", "readerr", "badjson", "corrupt"]
MODES = ["stream", "stream-gz", "jsonfile", "split", "jsonl", "json", "csv", "line", "line-verbose", "text", "list", "csvfile", "textfile", "linefile", "stdout-stream", "split-stdout"]


def budget(tier):
    return n_systematic() + (28000 if tier == "quick" else 1500000)


def wall_cap(tier):
    return 400 if tier == "quick" else 600


# -- generation ---------------------------------------------------------------------------------
# selectors that are well-defined on loosely typed (plain JSON, CSV) sources too
LOOSE_OK = (None, "r.s == 'x'", "r.q == 'q' or r.s == 'z'", "r.f", "r.extra == 'e1' or r.n == 4")


def gen_rec(rng, i, only=None):
    k = only or rng.choice(["A", "A", "B", "C", "A2", "D", "T", "P", "Q"])
    t = lambda h: {"$dt": (G + _dt.timedelta(hours=h)).replace(tzinfo=None).isoformat(), "off": 0}  # noqa: E731
    n = rng.choice([0, 1, 2, 3, 4])  # never None: ordering comparisons with None are selector semantics (C07), not slicing
    if k == "A":
        vals = [rng.choice(["x", "y", "z", "-rf /tmp/x", "=SUM(A1:A9)", "NOT FOUND", "not FOUND"]), n if n is not None else 1, t(i)]
    elif k == "B":
        vals = [n, rng.choice(["x", "q", "+31 6", "@reboot", "IN OR OUT", "in or OUT"])]
    elif k == "C":
        vals = [rng.choice(["x", "y"]), t(0), t(24 + i)]
    elif k == "A2":
        vals = [rng.choice(["x", "z"]), n if n is not None else 2, rng.choice(["e1", "e2"])]
    elif k == "P":
        vals = [n, rng.choice(["x", "y"])]
    elif k == "Q":
        vals = [rng.choice(["x", "z"])]
    elif k == "T":
        vals = [{"$l": [rng.choice(["red", "green", "blue"]) for _ in range(rng.choice([0, 1, 2, 3]))]}, n]
    else:
        vals = [rng.choice([True, False, True, False, None]), rng.choice(["q", "r"]), n if n is not None else 0]  # an unset boolean is not False
    meta = {}
    r = rng.random()
    if r < 0.3:
        meta["_source"] = "orig"
    elif r < 0.45:
        meta["_classification"] = "cls"
    return {"desc": k, "values": vals, "meta": meta}


def gen_source(rng, kind, idx, tier="quick", only=None):
    src = {"kind": kind, "idx": idx}
    if rng.random() < 0.1:
        src["pct"] = True
    elif rng.random() < 0.08:
        src["bracket"] = True
    n = rng.randrange(0, 7 if tier == "quick" else 30)
    if kind in ("good", "trunc", "readerr", "stdin"):
        src["recs"] = [gen_rec(rng, i, only) for i in range(n if kind == "good" or n else 3)]
        src["codec"] = rng.choice(["none", "none", "gz", "bz2", "lz4", "zst"]) if kind in ("good", "stdin") else rng.choice(["none", "none", "gz"])
        src["neutral"] = rng.random() < 0.25 and kind != "stdin"
        if kind == "good" and rng.random() < 0.12:
            src["fifo"] = True
        if kind == "trunc":
            src["cut"] = {"where": rng.choice(["in-header", "in-first-desc", "mid-record", "on-boundary", "random", "in-trailer"]), "frac": rng.random()}
        if kind == "readerr":
            src["read_error_at"] = rng.choice([0, 1, 1, 2, 3])
            src["read_buffer"] = rng.choice([16, 64, 8192])
    elif kind == "corrupt":
        # a compressed source whose payload is damaged after a complete, flushed part: the decoder does not run out of
        # data (EOFError), it hits invalid data (zlib.error, lz4 RuntimeError, ZstdError, OSError for bz2)
        src["recs"] = [gen_rec(rng, i, only) for i in range(max(n, 2))]
        src["codec"] = rng.choice(["gz", "lz4", "zst", "bz2"])
        src["good"] = rng.randrange(0, len(src["recs"]) + 1)
    elif kind == "csv":
        # a CSV file: header row, every value is text (csv/reader records); an empty one is a source that fails at open
        # (at least two columns and plain tokens, so that the reader's dialect sniffing - C20's business - settles on ",")
        cols = rng.sample(["s", "q", "extra", "n"], rng.randrange(2, 5))
        src["cols"] = cols
        src["rows"] = [[rng.choice(["x", "y", "z", "q", "e1", "7", "ab"]) for _ in cols] for _ in range(n)]
    elif kind == "avro":
        src["recs"] = [gen_rec(rng, i, "B") for i in range(n)]  # one descriptor per Avro file
        src["codec"] = rng.choice(["none", "none", "gz"])
    elif kind == "plainjson":
        # plain JSON lines (not written by flow.record): the reader derives a json/record descriptor per line
        lines = []
        for i in range(n):
            obj = {}
            for key in rng.sample(["s", "n", "q", "f", "extra"], rng.randrange(1, 4)):
                obj[key] = rng.choice({"s": ["x", "y", "z", None], "n": [0, 1, 2, 3, 4, "7"], "q": ["q", "x", 5], "f": [True, False], "extra": ["e1", None, 1.5]}[key])
            lines.append(obj)
        src["lines"] = lines
    elif kind in ("json", "badjson"):
        src["recs"] = [gen_rec(rng, i, only) for i in range(n)]
        if kind == "badjson":
            src["bad_line"] = rng.randrange(0, len(src["recs"]) + 1)
    return src


def gen_options(rng, mode):
    o = {}
    sel = rng.randrange(len(SELECTORS)) if rng.random() < 0.6 else 0
    o["sel"] = sel
    o["no_compile"] = rng.random() < 0.5
    o["skip"] = rng.choice([0, 0, 1, 3, 6])
    o["count"] = rng.choice([None, None, 1, 2, 5, 9])
    o["F"] = rng.choice([None, None, None, "s", "n,s", "q,zz", "t,n", "extra,s", "tags,n"])
    o["X"] = rng.choice([None, None, None, "n", "t", "q,extra", "s"])
    o["rsrc"] = rng.choice([None, None, "SRC", ""])
    o["rcls"] = rng.choice([None, None, "CLS", ""])
    o["multi"] = rng.random() < 0.3
    o["split"] = rng.choice([1, 2, 3, 4])
    o["suffix"] = rng.choice([1, 2, 3])
    return o


BASIC_OPTS = {"sel": 0, "no_compile": False, "skip": 0, "count": None, "F": None, "X": None, "rsrc": None, "rcls": None, "multi": False, "split": 2, "suffix": 2}


def _sys_lists():
    out = []
    for f in FAULT_KINDS:
        for perm in sorted(set(itertools.permutations(["good", "good", f]))):
            out.append(perm)
    for f1, f2 in itertools.combinations_with_replacement(FAULT_KINDS, 2):
        for perm in sorted(set(itertools.permutations(["good", "good", f1, f2]))):
            out.append(perm)
    return out


_SYS = _sys_lists()


def n_systematic():
    return len(_SYS)


def generate(rng, tier, index):
    if index < len(_SYS):
        kinds = _SYS[index]
        sources = [gen_source(rng, k, i) for i, k in enumerate(kinds)]
        for s in sources:
            if s["kind"] == "good" and not s["recs"]:
                s["recs"] = [gen_rec(rng, 0), gen_rec(rng, 1)]
        mode = ["stream", "jsonl", "csv", "text", "split", "line", "list", "jsonfile"][index % 8]
        opts = dict(BASIC_OPTS)
        if index % 3 == 1:
            opts["skip"] = 1
            opts["count"] = 4
        return {"sources": sources, "opts": opts, "mode": mode, "pool": POOL, "systematic": True}
    n = rng.choice([1, 2, 3, 3, 4, 5, 6])
    mode = rng.choice(MODES)
    opts = gen_options(rng, mode)
    only = "T" if opts["sel"] in NEEDS_TAGS else None
    sources = []
    have_stdin = False
    for i in range(n):
        kind = rng.choice(["good", "good", "good", "json", "stdin", "plainjson", "csv", "avro"] + FAULT_KINDS)
        if kind == "avro" and only:
            kind = "good"
        if kind in ("plainjson", "csv") and (only or SELECTORS[opts["sel"]][0] not in LOOSE_OK):
            kind = "json"  # ordering comparisons on loosely typed JSON values are selector semantics, not slicing
        if kind == "stdin":
            if have_stdin:
                kind = "good"
            have_stdin = True
        sources.append(gen_source(rng, kind, i, tier, only))
    if mode in ("stream", "stream-gz", "split", "stdout-stream", "split-stdout") and not only and rng.random() < 0.35:
        for s in sources:
            if s["kind"] in ("good", "stdin", "trunc") and s.get("recs"):
                for r in s["recs"]:
                    if r["desc"] == "B" and rng.random() < 0.5:
                        # a grouped record of a B and a D member (flat view: n, q, f)
                        r["group"] = {"name": "t/g", "other": {"desc": "D", "values": [rng.random() < 0.5, rng.choice(["q", "r"]), rng.choice([0, 1, 2])]}}
    return {"sources": sources, "opts": opts, "mode": mode, "pool": POOL}


# -- building sources -------------------------------------------------------------------------------
def compress(codec, data):
    if codec == "gz":
        return gzip.compress(data, mtime=0)
    if codec == "bz2":
        return bz2.compress(data)
    if codec == "lz4":
        return lz4.frame.compress(data)
    if codec == "zst":
        return zstandard.ZstdCompressor().compress(data)
    return data


EXT = {"none": "", "gz": ".gz", "bz2": ".bz2", "lz4": ".lz4", "zst": ".zst"}


def make_record(descs, r):
    from ..plan import dec_value

    d = descs[r["desc"]]
    rec = d(*[dec_value(v) for v in r["values"]])
    for k, v in r.get("meta", {}).items():
        setattr(rec, k, v)
    if r.get("group"):
        from flow.record import GroupedRecord

        g = r["group"]
        other = descs[g["other"]["desc"]](*[dec_value(v) for v in g["other"]["values"]])
        rec = GroupedRecord(g["name"], [rec, other])
    return rec


def stream_bytes(recs):
    """-> (bytes, [end offset of each record's frame])"""
    from flow.record import RecordStreamWriter

    buf = io.BytesIO()
    w = RecordStreamWriter(buf)
    w.flush()
    ends = []
    for r in recs:
        w.write(r)
        ends.append(buf.tell())
    data = buf.getvalue()
    w.fp = None
    return data, ends


def build_source(w, src, descs):
    """Creates the source in SimFS.  -> (argv name, records expected from it (list) or ("prefix-of", list))"""
    from flow.record import RecordWriter
    from .c04_crash import recover_plain

    kind = src["kind"]
    i = src["idx"]
    base = "/simfs/in/s%d" % i
    if src.get("pct"):
        base = "/simfs/in/s%d-100%%25 %%41" % i  # a name that looks like URL escapes is just a name
    if src.get("bracket"):
        # a literal name with a bracket expression, next to a file the expression would match as a pattern
        base = "/simfs/in/host[%d]" % i
        decoy = make_record(descs, {"desc": "B", "values": [99, "decoy"], "meta": {}})
        for ext in (".records", ".records.gz", ".json", ".bin", ".csv", ".avro", ".fd", ".jsonl"):
            w.fs.put("/simfs/in/host%d%s" % (i, ext), stream_bytes([decoy])[0] if ext == ".records" else b"")
    if kind == "missing":
        return base + ".records", []
    if kind == "empty":
        w.fs.put(base + ".records", b"")
        return base + ".records", []
    if kind == "garbage":
        w.fs.put(base + ".records", bytes((j * 37 + i * 11 + 5) % 251 for j in range(60)))
        return base + ".records", []
    if kind == "dir":
        w.fs.makedirs(base + ".records", exist_ok=True)
        return base + ".records", []
    if kind == "csv":
        from flow.record import RecordDescriptor

        path = base + ".csv"
        lines = [",".join(src["cols"])] + [",".join(r) for r in src["rows"]]
        w.fs.put(path, ("\r\n".join(lines) + "\r\n").encode())
        d = RecordDescriptor("csv/reader", [("string", c) for c in src["cols"]])
        return path, [d(*r) for r in src["rows"]]
    if kind == "avro":
        from flow.record import RecordWriter as _RW

        recs = [make_record(descs, r) for r in src.get("recs", [])]
        path = base + ".avro" + (".gz" if src.get("codec") == "gz" else "")
        ww = _RW("avro://" + path)
        for r in recs:
            ww.write(r)
        ww.flush()
        ww.close()
        return "avro://" + path if path.endswith(".gz") else path, recs
    if kind == "plainjson":
        from flow.record import RecordDescriptor

        path = base + ".jsonl"
        out = []
        recs = []
        for obj in src["lines"]:
            out.append(json.dumps(obj))
            fields = []
            for k, v in obj.items():
                t = "string" if isinstance(v, str) or v is None else "float" if isinstance(v, float) else "boolean" if isinstance(v, bool) else "varint"
                fields.append((t, k))
            recs.append(RecordDescriptor("json/record", fields)(**obj))
        w.fs.put(path, ("\n".join(out) + ("\n" if out else "")).encode())
        return path, recs
    recs = [make_record(descs, r) for r in src.get("recs", [])]
    if kind in ("json", "badjson"):
        path = base + ".json"
        ww = RecordWriter(path)
        for r in recs:
            ww.write(r)
        ww.flush()
        ww.close()
        if kind == "badjson":
            lines = w.fs.get(path).decode().splitlines(True)
            # find the line of the k-th record and break it
            rec_lines = [j for j, ln in enumerate(lines) if '"_type": "record"' in ln]
            k = src["bad_line"]
            if k < len(rec_lines):
                j = rec_lines[k]
                lines[j] = lines[j][: max(1, len(lines[j]) // 2)] + "\n"
                w.fs.put(path, "".join(lines).encode())
                return path, recs[:k]
        return path, recs
    data, ends = stream_bytes(recs)
    codec = src.get("codec", "none")
    if kind == "stdin":
        return "-", (recs, compress(codec, data))
    name = (base + ".bin") if src.get("neutral") else (base + ".records" + EXT[codec])
    blob = compress(codec, data)
    if kind == "good":
        if src.get("fifo"):
            name = base + ".fd"  # e.g. rdump a <(zcat b.gz) c: a pipe, not a regular file
            w.fs.put_fifo(name, blob)
            w.fs.read_plans[name] = HandlePlan(delivery=[4096, 5, 4096], tail="whole")
            w.probe("pipe-source")
        else:
            w.fs.put(name, blob)
        return name, recs
    if kind == "trunc":
        where = src["cut"]["where"]
        frac = src["cut"]["frac"]
        spans = refcodec.frame_spans(data)
        if codec == "none":
            if where == "in-header":
                k = int(frac * 19)
            elif where == "in-first-desc" and len(spans) > 1:
                k = spans[1][0] + 1 + int(frac * (spans[1][1] - spans[1][0] - 2))
            elif where == "mid-record" and len(spans) > 2:
                s, e = spans[2 + int(frac * (len(spans) - 2)) % (len(spans) - 2)] if len(spans) > 2 else spans[-1]
                k = s + 1 + int(frac * max(e - s - 2, 0))
            elif where == "on-boundary" and spans:
                k = spans[int(frac * len(spans)) % len(spans)][1]
            else:
                k = int(frac * (len(data) + 1))
            cut = data[:k]
            plain = cut
        else:
            if where == "in-trailer":
                k = len(blob) - 1 - int(frac * 7)
            elif where == "in-header":
                k = int(frac * 10)
            else:
                k = int(frac * (len(blob) + 1))
            cut = blob[: max(k, 0)]
            plain, _ = recover_plain(cut, True)
        w.fs.put(name, cut)
        good = [r for r, e in zip(recs, ends) if e <= len(plain)] if len(plain) >= 19 else []
        if good:
            w.probe("truncated-nonempty-prefix")
        return name, good
    if kind == "corrupt":
        import zlib

        k = src["good"]
        head = data[: ends[k - 1]] if k else data[:19]
        if codec == "gz":
            c = zlib.compressobj(6, zlib.DEFLATED, 31)
            blob = c.compress(head) + c.flush(zlib.Z_FULL_FLUSH) + b"\x07\xff\xff"  # a block of the reserved type
        else:
            blob = compress(codec, head) + b"\x00garbage after the frame\xff\xfe"
        w.fs.put(name, blob)
        w.probe("corrupt-compressed-source")
        return name, ("prefix-of", recs[:k])
    if kind == "readerr":
        w.fs.put(name, blob)
        w.probe("read-error-source")
        return name, ("readerr", recs, ends, len(data), codec)
    raise ValueError(kind)


# -- reference pipeline ---------------------------------------------------------------------------------
def fields_dict(r):
    d = {f: getattr(r, f) for f in r._desc.fields}
    d["$name"] = r._desc.name  # for selectors that use name(r); cannot collide with a field name
    return d


def model_of(r, opts):
    F = opts["F"].split(",") if opts["F"] else None
    X = opts["X"].split(",") if opts["X"] else []
    names = list(r._desc.fields)
    if F:
        names = [f for f in F if f in r._desc.fields]
    names = [f for f in names if f not in X]
    return {
        "name": r._desc.name,
        "fields": [(f, r._desc.fields[f].typename, getattr(r, f)) for f in names],
        "source": opts["rsrc"] if opts["rsrc"] is not None else r._source,
        "cls": opts["rcls"] if opts["rcls"] is not None else r._classification,
        "expanded": False,
        # a grouped record stays grouped unless a projection rebuilds it as a flat record
        "members": None if (opts["F"] or opts["X"]) else members_obs(r),
    }


def expand(models):
    from flow.record import fieldtypes

    out = []
    for m in models:
        dts = [(f, v) for f, t, v in m["fields"] if t == "datetime"]
        if not dts:
            out.append(m)
            continue
        for f, v in dts:
            out.append({"name": m["name"], "fields": [("ts", "datetime", v), ("ts_description", "string", fieldtypes.string(f))] + m["fields"], "source": None, "cls": None, "expanded": True})
    return out


def _viol(inv, detail, info=None):
    return {"invariant": inv, "detail": detail, "info": info or {}}


def obs_fields(fields):
    return [[f, t, obs_value(v)] for f, t, v in fields]


def members_obs(r):
    from flow.record import GroupedRecord

    from ..observe import obs_record

    if isinstance(r, GroupedRecord):
        return [obs_record(m, meta=False) for m in r.records]
    return None


def rec_model(r):
    return {"name": r._desc.name, "fields": [(f, r._desc.fields[f].typename, getattr(r, f)) for f in r._desc.fields], "source": r._source, "cls": r._classification,
            "members": members_obs(r)}  # fmt: skip


def cmp_models(got, exp, what):
    """-> error string or None.  Order matters."""
    if len(got) != len(exp):
        names_g = collections.Counter(_key(g) for g in got)
        names_e = collections.Counter(_key(e) for e in exp)
        miss = list((names_e - names_g).elements())[:3]
        extra = list((names_g - names_e).elements())[:3]
        return "%s: %d records, expected %d (missing e.g. %s; unexpected e.g. %s)" % (what, len(got), len(exp), short(miss, 160), short(extra, 160))
    for i, (g, e) in enumerate(zip(got, exp)):
        if g["name"] != e["name"] or obs_fields(g["fields"]) != obs_fields(e["fields"]):
            return "%s: record %d is %s %s, expected %s %s" % (what, i, g["name"], short(obs_fields(g["fields"]), 200), e["name"], short(obs_fields(e["fields"]), 200))
        if not e["expanded"] and (g["source"], g["cls"]) != (e["source"], e["cls"]):
            return "%s: record %d metadata (_source, _classification) is %r, expected %r" % (what, i, (g["source"], g["cls"]), (e["source"], e["cls"]))
        if "members" in g and "members" in e and not e["expanded"] and g["members"] != e["members"]:
            return "%s: record %d grouping differs: got members %s, expected %s" % (what, i, short(g["members"], 160), short(e["members"], 160))
    return None


def _key(m):
    return (m["name"], repr(obs_fields(m["fields"])))


def json_form(v):
    if v is None:
        return None
    if isinstance(v, _dt.datetime):
        return v.isoformat()
    if isinstance(v, bool):
        return bool(v)
    if isinstance(v, int):
        return int(v)
    if isinstance(v, float):
        return float(v)
    if isinstance(v, (list, tuple)):
        return [json_form(x) for x in v]
    return str(v)


# -- execute ------------------------------------------------------------------------------------------
def execute(plan, keep_log=False):
    from flow.record import RecordDescriptor, RecordReader
    from flow.record.tools import rdump

    viols = []
    opts = plan["opts"]
    mode = plan["mode"]

    def add(v):
        if not any(x["invariant"] == v["invariant"] for x in viols):
            viols.append(v)

    with World(keep_log=keep_log) as w:
        w.fs.makedirs("/simfs/in", exist_ok=True)
        w.fs.makedirs("/simfs/out", exist_ok=True)
        w.fs.makedirs("/simfs/cwd", exist_ok=True)
        w.sim_cwd = "/simfs/cwd"  # anything rdump opens by a relative name stays inside the simulation
        descs = {k: RecordDescriptor(v[0], [tuple(f) for f in v[1]]) for k, v in sorted(plan["pool"].items())}
        argv_src = []
        per_source = []
        stdin_data = b""
        kinds = []
        for src in plan["sources"]:
            name, exp = build_source(w, src, descs)
            kinds.append(src["kind"])
            if src["kind"] == "stdin":
                recs, stdin_data = exp
                exp = recs
                w.probe("stdin-source")
            if src["kind"] == "readerr":
                _, recs, ends, plain_len, codec = exp
                hp = HandlePlan(read_error_at=src["read_error_at"])
                w.fs.read_plans[name] = hp
                exp = ("readerr", recs, ends, codec, name, src)
            argv_src.append(name)
            per_source.append(exp)
        names = set()
        for s in plan["sources"]:
            for r in s.get("recs", []):
                names.add(r["desc"])
        if "A" in names and "A2" in names:
            w.probe("same-name-different-fields")
        if any(r.get("group") for s in plan["sources"] for r in s.get("recs", [])):
            w.probe("grouped-record-source")
        # placement probes
        faulty = [k in FAULT_KINDS for k in kinds]
        if any(faulty):
            if faulty[0]:
                w.probe("faulty-first")
            if faulty[-1]:
                w.probe("faulty-last")
            if any(faulty[i] and not faulty[i - 1] and not faulty[i + 1] for i in range(1, len(faulty) - 1)):
                w.probe("faulty-between")
            if all(faulty):
                w.probe("all-faulty")
        # ---- argv ---------------------------------------------------------------------------------
        sel_src, pred = SELECTORS[opts["sel"]]
        argv = list(argv_src)
        if sel_src:
            argv += ["-s", sel_src]
        if opts["no_compile"]:
            argv += ["-n"]
        if opts["skip"]:
            argv += ["--skip", str(opts["skip"])]
        if opts["count"]:
            argv += ["-c", str(opts["count"])]
        if opts["F"]:
            argv += ["-F", opts["F"]]
        if opts["X"]:
            argv += ["-X", opts["X"]]
        if opts["rsrc"] is not None:
            argv += ["--record-source", opts["rsrc"]]
        if opts["rcls"] is not None:
            argv += ["--record-classification", opts["rcls"]]
        if opts["multi"]:
            argv += ["--multi-timestamp"]
        out = None
        if mode == "stream":
            out = "/simfs/out/out.records"
            argv += ["-w", out]
        elif mode == "stream-gz":
            out = "/simfs/out/out.records.gz"
            argv += ["-w", out]
        elif mode == "jsonfile":
            out = "/simfs/out/out.jsonl"
            argv += ["-w", "jsonfile://" + out]
        elif mode == "csvfile":
            out = "/simfs/out/out.csv"
            argv += ["-w", "csvfile://" + out]
        elif mode == "textfile":
            out = "/simfs/out/out.txt"
            argv += ["-w", "text://" + out]
        elif mode == "linefile":
            out = "/simfs/out/out.txt"
            argv += ["-w", "line://" + out]
        elif mode == "split":
            out = "/simfs/out/out.records"
            argv += ["-w", out, "--split", str(opts["split"]), "--suffix-length", str(opts["suffix"])]
        elif mode == "stdout-stream":
            argv += ["-w", "-"]
        elif mode == "split-stdout":
            # splitting makes no sense on stdout: everything is one stream there
            argv += ["-w", "stream://", "--split", str(opts["split"]), "--suffix-length", str(opts["suffix"])]
        elif mode == "jsonl":
            argv += ["-J"]
        elif mode == "json":
            argv += ["-j"]
        elif mode == "csv":
            argv += ["-C"]
        elif mode == "line":
            argv += ["-L"]
        elif mode == "line-verbose":
            argv += ["-Lv"]
        elif mode == "list":
            argv += ["-l"]
        w.log("rdump", " ".join(a.replace("/simfs", "") for a in argv))
        # ---- run rdump ------------------------------------------------------------------------------
        w.set_stdin(stdin_data, HandlePlan(delivery=[4096], tail="whole"))
        stdout_ino = w.set_stdout()
        err = io.StringIO()
        sys.stderr = err
        rc = None
        try:
            rc = rdump.main(argv)
        except SystemExit as e:
            rc = ("exit", e.code)
        except Exception as e:  # noqa: BLE001
            rc = ("raised", type(e).__name__, str(e)[:200])
        try:
            sys.stdout.flush()
        except Exception:  # noqa: BLE001
            pass
        so = bytes(stdout_ino.data)
        w.log("rdump", "rc", rc if not isinstance(rc, tuple) else rc[:2], "stdout=%d" % len(so))
        # ---- expected, now that read-error sources can be resolved ------------------------------------
        exact = True
        expected_records = []
        boundaries = []
        for exp in per_source:
            if isinstance(exp, tuple) and exp and exp[0] == "readerr":
                _, recs, ends, codec, name, src = exp
                h = [x for x in w.fs.handles if x.name == name and x._r]
                delivered = 0
                if h:
                    hh = h[0]
                    # bytes handed out by the raw reads that preceded the failing one
                    delivered = hh._pos
                if codec == "none":
                    got_recs = [r for r, e in zip(recs, ends) if e <= delivered] if delivered >= 19 else []
                    expected_records.append(("exact", got_recs))
                else:
                    expected_records.append(("prefix", recs))
                    exact = False
            elif isinstance(exp, tuple) and exp and exp[0] == "prefix-of":
                expected_records.append(("prefix", exp[1]))
                exact = False
            else:
                expected_records.append(("exact", exp))
        if rc not in (None, 0):
            add(_viol("C16.exit", "rdump.main(%s) ended with %r; stderr: %s" % (" ".join(argv[len(argv_src):]), rc, short(err.getvalue(), 200)), {"rc": repr(rc)}))
        else:
            check_output(w, plan, opts, mode, out, so, expected_records, exact, pred, add, argv[len(argv_src):], kinds)
        w.state(mode, _opt_sig(opts), ",".join(k[:3] for k in kinds))
        stats = collections.Counter(w.stats)
        states = set(w.states)
        digest = w.digest()
        trace = w.trace
    sample = {"sources": kinds, "mode": mode, "argv": [a for a in argv if not a.startswith("/simfs/in")]}
    return {"violations": viols, "digest": digest, "stats": stats, "states": states, "evals": 1, "sim_us": 0, "trace": trace, "sample": sample}


def _opt_sig(o):
    return "".join(["s" if o["sel"] else "", "n" if o["no_compile"] else "", "k" if o["skip"] else "", "c" if o["count"] else "", "F" if o["F"] else "", "X" if o["X"] else "",
                    "S" if o["rsrc"] is not None else "", "C" if o["rcls"] is not None else "", "m" if o["multi"] else ""])  # fmt: skip


def pipeline(source_lists, opts, pred, mode):
    allr = [r for lst in source_lists for r in lst]
    kept = [r for r in allr if pred(fields_dict(r))]
    sl = kept[opts["skip"] :]
    if opts["count"]:
        sl = sl[: opts["count"]]
    models = [model_of(r, opts) for r in sl]
    if opts["multi"] and mode != "list":
        models = expand(models)
    return models, kept


def check_output(w, plan, opts, mode, out, so, expected_records, exact, pred, add, optargv, kinds):
    from flow.record import RecordReader

    # candidate expectations: exact unless a compressed read-error source leaves a choice of prefix
    variants = [[]]
    for how, recs in expected_records:
        if how == "exact":
            variants = [v + [recs] for v in variants]
        else:
            variants = [v + [recs[:k]] for v in variants for k in range(len(recs) + 1)]
            if len(variants) > 6000:
                # too many admissible prefixes to enumerate soundly: this run is not judged
                w.stats["unjudged_runs"] += 1
                return
    exps = []
    for v in variants:
        models, kept = pipeline(v, opts, pred, mode)
        exps.append(models)
    # probes on the first variant
    v0 = variants[0]
    kept_per_source = [[r for r in lst if pred(fields_dict(r))] for lst in v0]
    cum = 0
    for i, lst in enumerate(kept_per_source):
        if cum < opts["skip"] < cum + len(lst) and i + 1 < len(kept_per_source):
            pass
        if cum + len(lst) <= opts["skip"] and lst and opts["skip"] and i + 1 < len(kept_per_source) and sum(len(x) for x in kept_per_source) > opts["skip"]:
            w.probe("skip-spans-source-boundary")
        cum += len(lst)
    if opts["count"]:
        total = 0
        for i, lst in enumerate(kept_per_source):
            total += len(lst)
            if total >= opts["skip"] + opts["count"] and any(k in FAULT_KINDS for k in kinds[i + 1 :]):
                w.probe("count-reached-before-failing-source")
                break
    if opts["multi"] and mode != "list" and any(m["expanded"] for m in exps[0]):
        w.probe("multi-timestamp-expanded")

    def judge(decode_err, got_models, what):
        if decode_err:
            add(_viol("C16.records", "%s: output cannot be decoded: %s [rdump %s]" % (what, decode_err, " ".join(optargv))))
            return
        errs = []
        for exp in exps:
            e = cmp_models(got_models, exp, what)
            if e is None:
                return
            errs.append(e)
        inv = "C16.records"
        if len(got_models) > len(exps[0]) and collections.Counter(_key(g) for g in got_models) - collections.Counter(_key(e) for e in exps[0]):
            dup = [k for k, c in collections.Counter(_key(g) for g in got_models).items() if c > collections.Counter(_key(e) for e in exps[0]).get(k, 0)]
            if dup and all(k in set(_key(e) for e in exps[0]) for k in dup):
                inv = "C16.duplicate"
        add(_viol(inv, "%s [rdump %s; sources %s]" % (errs[0], " ".join(optargv), ",".join(kinds)), {"mode": mode}))

    exp0 = exps[0]
    if mode in ("stream", "stream-gz", "jsonfile"):
        if not w.fs.exists(out):
            add(_viol("C16.records", "-w target %s was not created" % out))
            return
        if not exp0:
            w.probe("zero-records-with-writer")
        try:
            got = [rec_model(r) for r in RecordReader(("jsonfile://" if mode == "jsonfile" else "") + out)]
            judge(None, got, "-w " + mode)
        except Exception as e:  # noqa: BLE001
            judge("%s: %s" % (type(e).__name__, short(str(e), 120)), [], "-w " + mode)
    elif mode in ("stdout-stream", "split-stdout"):
        try:
            got = [rec_model(r) for r in RecordReader(fileobj=io.BytesIO(so))] if so else []
            if not so and exp0:
                judge("nothing was written to stdout", [], "-w -")
            else:
                judge(None, got, "-w - (record stream on stdout)")
        except Exception as e:  # noqa: BLE001
            judge("%s: %s" % (type(e).__name__, short(str(e), 120)), [], "-w -")
    elif mode == "split":
        N = opts["split"]
        parts = []
        for e in w.fs.events:
            if e[0] == "create" and e[1].startswith("/simfs/out/") and e[1] not in parts and w.fs.isfile(e[1]):
                parts.append(e[1])
        if any(e[0] == "truncate" and e[1].startswith("/simfs/out/") for e in w.fs.events):
            add(_viol("C16.records", "a split part was opened twice and truncated"))
        allr = []
        for pi, p in enumerate(parts):
            try:
                rs = [rec_model(r) for r in RecordReader(p)]
            except Exception as e:  # noqa: BLE001
                if w.fs.get(p):
                    add(_viol("C16.records", "split part %s is not readable: %s" % (p, e)))
                rs = []
            if len(rs) > N:
                add(_viol("C16.records", "split part %s holds %d records, limit %d" % (p, len(rs), N)))
            allr += rs
        if exp0 and len(exp0) % N == 0:
            w.probe("split-multiple-of-limit")
        judge(None, allr, "--split %d parts in creation order" % N)
    elif mode in ("jsonl", "json"):
        try:
            text = so.decode("utf-8")
            objs = []
            if mode == "jsonl":
                objs = [json.loads(line) for line in text.splitlines() if line.strip()]
            else:
                dec = json.JSONDecoder()
                pos = 0
                while pos < len(text):
                    while pos < len(text) and text[pos].isspace():
                        pos += 1
                    if pos >= len(text):
                        break
                    o, pos = dec.raw_decode(text, pos)
                    objs.append(o)
        except Exception as e:  # noqa: BLE001
            judge("%s: %s" % (type(e).__name__, e), [], mode)
            return
        if any(exp_matches_json(objs, exp) is None for exp in exps):
            return
        add(_viol("C16.records", "%s: %s [rdump %s; sources %s]" % (mode, exp_matches_json(objs, exp0), " ".join(optargv), ",".join(kinds)), {"mode": mode}))
    elif mode in ("csv", "csvfile"):
        data = so if mode == "csv" else (w.fs.get(out) if w.fs.exists(out) else b"")
        rows = list(csv.reader(io.StringIO(data.decode("utf-8"), newline="")))
        if any(csv_expect(exp, opts, mode == "csvfile") == rows for exp in exps):
            return
        want = csv_expect(exp0, opts, mode == "csvfile")
        j = next((i for i in range(min(len(rows), len(want))) if rows[i] != want[i]), min(len(rows), len(want)))
        add(_viol("C16.records", "csv: %d rows, expected %d; first difference at row %d: got %s expected %s [rdump %s; sources %s]" % (
            len(rows), len(want), j, short(rows[j] if j < len(rows) else None, 120), short(want[j] if j < len(want) else None, 120), " ".join(optargv), ",".join(kinds)), {"mode": mode}))  # fmt: skip
    elif mode in ("line", "line-verbose", "linefile"):
        data = so if mode != "linefile" else (w.fs.get(out) if w.fs.exists(out) else b"")
        blocks = data.decode("utf-8").split("--[ RECORD ")[1:]
        ok = False
        msg = None
        for exp in exps:
            m = line_mismatch(blocks, exp, mode == "line-verbose", opts, mode != "line")
            if m is None:
                ok = True
                break
            msg = msg or m
        if not ok:
            add(_viol("C16.records", "line mode: %s [rdump %s; sources %s]" % (msg, " ".join(optargv), ",".join(kinds)), {"mode": mode}))
    elif mode in ("text", "textfile"):
        data = so if mode == "text" else (w.fs.get(out) if w.fs.exists(out) else b"")
        lines = data.decode("utf-8").splitlines()
        for exp in exps:
            want = ["<%s %s>" % (e["name"], " ".join("%s=%r" % (f, v) for f, t, v in e["fields"])) for e in exp]
            if lines == want:
                return
        want = ["<%s %s>" % (e["name"], " ".join("%s=%r" % (f, v) for f, t, v in e["fields"])) for e in exp0]
        j = next((i for i in range(min(len(lines), len(want))) if lines[i] != want[i]), min(len(lines), len(want)))
        add(_viol("C16.records", "text: %d lines, expected %d; first difference at %d: got %s expected %s [rdump %s; sources %s]" % (
            len(lines), len(want), j, short(lines[j] if j < len(lines) else None, 140), short(want[j] if j < len(want) else None, 140), " ".join(optargv), ",".join(kinds)), {"mode": mode}))  # fmt: skip
    elif mode == "list":
        text = so.decode("utf-8")
        m = re.search(r"Processed (\d+) records", text)
        n = int(m.group(1)) if m else None
        if not any(n == len(exp) for exp in exps):
            add(_viol("C16.records", "-l: 'Processed %s records', expected %d [rdump %s; sources %s]" % (n, len(exp0), " ".join(optargv), ",".join(kinds)), {"mode": mode}))
        # descriptors listed once each
        listed = re.findall(r"^# <RecordDescriptor ([^,]+), hash=([0-9a-f]+)>", text, re.M)
        from ..gen import desc_hash

        want = []
        for e in exp0:
            # rdump lists a descriptor once per distinct 32-bit descriptor hash
            k = desc_hash(e["name"], [[t, f] for f, t, v in e["fields"]])
            if k not in want:
                want.append(k)
        if exact_len(exps) and len(listed) != len(want):
            add(_viol("C16.records", "-l: %d descriptors listed, %d distinct descriptors among the selected records" % (len(listed), len(want)), {"mode": mode}))


def exact_len(exps):
    return len(exps) == 1


def exp_matches_json(objs, exp):
    if len(objs) != len(exp):
        return "%d JSON objects, expected %d records" % (len(objs), len(exp))
    for i, (d, e) in enumerate(zip(objs, exp)):
        gotf = [(k, v) for k, v in d.items() if not k.startswith("_")]
        expf = [(f, json_form(v)) for f, t, v in e["fields"]]
        if gotf != expf:
            return "record %d fields %s, expected %s" % (i, short(gotf, 160), short(expf, 160))
        if not e["expanded"] and (d.get("_source"), d.get("_classification")) != (e["source"], e["cls"]):
            return "record %d metadata %r, expected %r" % (i, (d.get("_source"), d.get("_classification")), (e["source"], e["cls"]))
    return None


def csv_cell(v):
    if v is None:
        return ""
    return str(v)


def csv_expect(exp, opts, via_writer=False):
    """CsvfileWriter emits a header whenever the (projected) descriptor changes; rows carry every slot
    of the record unless -F restricts them."""
    rows = []
    last = None
    for e in exp:
        key = (e["name"], tuple((t, f) for f, t, v in e["fields"]))
        names = [f for f, t, v in e["fields"]]
        if not opts["F"] or via_writer:
            cols = names + ["_source", "_classification", "_generated", "_version"]
        else:
            cols = [f for f in opts["F"].split(",") if f in names]
        if opts["X"] and not via_writer:
            cols = [c for c in cols if c not in opts["X"].split(",")]
        if key != last:
            rows.append(cols)
            last = key
        vals = {f: csv_cell(v) for f, t, v in e["fields"]}
        vals["_source"] = csv_cell(e["source"]) if not e["expanded"] else None
        vals["_classification"] = csv_cell(e["cls"]) if not e["expanded"] else None
        vals["_version"] = "1"
        vals["_generated"] = None
        rows.append([vals.get(c) for c in cols])
    return _Wild(rows)


class _Wild(list):
    """Row list in which a None cell matches anything (metadata of expanded records, _generated)."""

    def __eq__(self, other):
        if len(self) != len(other):
            return False
        for a, b in zip(self, other):
            if len(a) != len(b):
                return False
            for x, y in zip(a, b):
                if x is not None and x != y:
                    return False
        return True

    __hash__ = None


def line_mismatch(blocks, exp, verbose, opts, via_writer=False):
    if len(blocks) != len(exp):
        return "%d record blocks, expected %d" % (len(blocks), len(exp))
    for i, (b, e) in enumerate(zip(blocks, exp), 1):
        if not b.startswith("%d ]--" % i):
            return "block %d is numbered %r" % (i, b[:12])
        kv = [tuple(x.strip() for x in ln.split(" = ", 1)) for ln in b.splitlines()[1:] if " = " in ln]
        fields = e["fields"]
        if not via_writer and opts["F"]:
            # with plain -L (no -w, and a writer URI without a query of its own) the line writer is handed
            # fields=/exclude= as well and applies them when rendering, which hides ts / ts_description of
            # timestamp-expanded records (as the CSV writer does); -Lv and the JSON modes do not get them
            byname = {f: (f, t, v) for f, t, v in fields}
            fields = [byname[f] for f in opts["F"].split(",") if f in byname]
        if not via_writer and opts["X"]:
            fields = [x for x in fields if x[0] not in opts["X"].split(",")]
        if verbose:
            want = [("%s (%s)" % (f, t), str(v)) for f, t, v in fields]
        else:
            want = [(f, str(v)) for f, t, v in fields]
        # reserved fields (_source, _classification, _generated, _version) are printed too - after the record's own
        # fields, or, for a grouped record, after the fields of its first member; they are compared elsewhere
        # (JSON and stream modes), here only the record's own fields count, all of them and in order
        own = [x for x in kv if not x[0].startswith("_")]
        if own != want:
            return "block %d fields %s, expected %s" % (i, short(kv, 160), short(want, 160))
    return None


# -- minimisation ---------------------------------------------------------------------------------------
def shrink_candidates(plan):
    import copy

    if len(plan["sources"]) > 1:
        for i in range(len(plan["sources"])):
            c = copy.deepcopy(plan)
            del c["sources"][i]
            for j, s in enumerate(c["sources"]):
                s["idx"] = j
            yield c
    for k, simple in (("sel", 0), ("skip", 0), ("count", None), ("F", None), ("X", None), ("rsrc", None), ("rcls", None), ("multi", False), ("no_compile", False)):
        if plan["opts"][k] != simple:
            c = copy.deepcopy(plan)
            c["opts"][k] = simple
            yield c
    for i, s in enumerate(plan["sources"]):
        recs = s.get("recs") or []
        if len(recs) > 1:
            for j in range(len(recs)):
                c = copy.deepcopy(plan)
                del c["sources"][i]["recs"][j]
                yield c
        if s.get("codec") not in (None, "none"):
            c = copy.deepcopy(plan)
            c["sources"][i]["codec"] = "none"
            yield c


KNOWN = {}


def mutate(plan, rng):
    import copy

    p = copy.deepcopy(plan)
    p.pop("systematic", None)
    r = rng.random()
    if r < 0.3 and len(p["sources"]) > 1:
        rng.shuffle(p["sources"])
        for j, s in enumerate(p["sources"]):
            s["idx"] = j
    elif r < 0.6:
        o = gen_options(rng, p["mode"])
        k = rng.choice(sorted(o))
        loose = any(s.get("kind") in ("plainjson", "csv") for s in p["sources"])
        if k == "sel" and (o[k] in NEEDS_TAGS or (loose and SELECTORS[o[k]][0] not in LOOSE_OK)):
            pass  # the generator never pairs these selectors with such sources (C07/C08 semantics, not slicing)
        else:
            p["opts"][k] = o[k]
    elif r < 0.8:
        p["mode"] = rng.choice(MODES)
        if p["mode"] not in ("stream", "stream-gz", "split", "stdout-stream", "split-stdout"):
            # grouped records are generated for the record-stream outputs only (how text renderers lay out the flat
            # view of a group is not modelled): keep the mutated plan inside the generator's domain
            for s in p["sources"]:
                for rec in s.get("recs") or []:
                    rec.pop("group", None)
    elif len(p["sources"]) < 6 and p["opts"]["sel"] not in NEEDS_TAGS:
        p["sources"].append(gen_source(rng, rng.choice(["good"] + FAULT_KINDS), len(p["sources"])))
    return p
