"""C17 - writers lose nothing: close, split and rotation keep every record once.

Sub-scenario "history": one writer adapter (stream in five codecs, JSON lines, Avro, SQLite, CSV,
line, text, and split:// over several of them) is driven through a write / flush / close /
with-exit / body-raises history; afterwards the targets on the simulated disk are decoded with the
library's reader and with independent tools and compared with the list of records whose write()
returned.  Low run indices sweep every short history per adapter.

Sub-scenario "archive": PathTemplateWriter / RecordArchiver / archive:// instances run under the
simulated clock (same-second bursts, hour/day steps, backward jumps, skewed record stamps,
restarts, pre-existing files); the oracle is conservation + placement + "no rename or open ever
replaced an existing file", evaluated on SimFS's event log.   See DESIGN.md 5.5.
"""

import bz2
import collections
import csv
import datetime as _dt
import gzip
import io
import json
import os
import shutil
import sqlite3
import sys
import tempfile

import lz4.frame
import zstandard

from .. import refcodec
from ..observe import short
from ..plan import Pool, enc_value
from ..world import World

NAME = "c17_writers"
PROP = "C17"
LEVEL = "exploration"
RULE = (
    "run indices below the systematic bound enumerate, per writer target (19 URIs incl. relative ones: stream plain/gz/bz2/lz4/zst, jsonfile, avro, sqlite, csv, "
    "line, text, split over stream/gz/jsonfile/csv), every body of <= 5 write/flush calls x 6 ways of ending (close, close+close, "
    "flush+close, with-exit, with-body-raises, exit+close); above it, seeded histories up to 40 ops with split limits 1..7, suffix lengths, "
    "record counts covering every residue, buffer sizes, and archive runs (<= 40 ops) under a simulated clock. One evaluation = one history "
    "executed and every produced file decoded twice. Distinct state = (target kind, history shape string) for histories and (template "
    "kind, rotation count, clock-delta buckets, restarts, pre-existing) for archive runs."
)
ASSUMPTIONS = [
    "C17 decides loss/duplication/order, not value fidelity: records carry a unique sequence number and simple values (text, 64-bit ints, booleans, UTC timestamps after 1970)",
    "CSV/line/text outputs are decoded only with independent parsers (csv.reader with the writer's dialect, block/line parsing); an empty CSV/line/text output need not be 'valid'",
    "a write() that raises is refused, not lost (counted); writes after close are outside the property",
    "finaliser (__del__) timing is not part of the histories: gc is disabled during a run",
    "SQLite targets live on the real file system in a per-run scratch directory (real engine), everything else in SimFS",
    "the archive oracle does not prescribe the name of a rotated file, only that nothing existing is replaced and every record is found where its template's lineage began",
]
EXPECTED_PROBES = ["empty-output-read", "double-close", "with-body-raised", "split-exact-multiple", "split-part-readable", "rotation", "same-second-rotation",
                   "clock-backward", "pre-existing-rotated", "restart", "skewed-stamp", "two-writers-open", "write-refused-by-injected-fault", "output-file-is-fd-1"]  # fmt: skip

TARGETS = [
    ("stream", "/simfs/o.records"),
    ("stream-gz", "/simfs/o.records.gz"),
    ("stream-bz2", "/simfs/o.records.bz2"),
    ("stream-lz4", "/simfs/o.records.lz4"),
    ("stream-zst", "/simfs/o.records.zst"),
    ("json", "/simfs/o.json"),
    ("avro", "/simfs/o.avro"),
    ("sqlite", "sqlite://{scratch}/o.db"),
    ("csv", "/simfs/o.csv"),
    ("line", "line:///simfs/o.txt"),
    ("text", "text:///simfs/o.txt"),
    ("split-stream", "split:///simfs/p.records?count={count}&suffix-length={sl}"),
    ("split-gz", "split:///simfs/p.records.gz?count={count}&suffix-length={sl}"),
    ("split-json", "split+jsonfile:///simfs/p.jsonl?count={count}&suffix-length={sl}"),
    ("split-csv", "split+csvfile:///simfs/p.csv?count={count}&suffix-length={sl}"),
    # relative targets (resolved in a simulated working directory)
    ("stream", "rel.records"),
    ("split-json", "split+jsonfile://rel.jsonl?count={count}&suffix-length={sl}"),
    ("split-csv", "split+csvfile://sub/rel.csv?count={count}&suffix-length={sl}"),
    ("split-stream", "split://rel.records?count={count}&suffix-length={sl}"),
    # names that look like URL escapes are just names
    ("stream", "/simfs/o%41.records"),
    ("json", "jsonfile:///simfs/p%2Fq.jsonl"),
    ("split-stream", "split:///simfs/s%20t.records?count={count}&suffix-length={sl}"),
]
# standard output as the target: the writer must not close it, but everything written must have reached it
# (at the latest when the interpreter flushes sys.stdout on exit) once the writer is closed
STDOUT_TARGETS = [("stream", "stream://"), ("stream", "stream://-"), ("avro", "avro://"), ("json", "jsonfile://"), ("json", "jsonfile://-"), ("csv", "csvfile://")]
STDOUT_EXT = {"stream": ".records", "avro": ".avro", "json": ".json", "csv": ".csv"}
MOVES = ("rename", "link")  # how an existing file can be given another name (rename, or link + unlink)
TERMINATORS = ["c", "cc", "fc", "X", "R", "Xc"]  # c close, f flush, X with-exit, R with body raising then exit
BODIES = [""]
for _n in range(1, 6):
    BODIES += ["".join(p) for p in __import__("itertools").product("wf", repeat=_n)]
N_SYS = len(TARGETS) * len(BODIES) * len(TERMINATORS)

POOL = {
    "D0": ["c17/a", [["varint", "n"], ["string", "s"]]],
    "D1": ["c17/b", [["varint", "n"], ["string", "s"], ["boolean", "f"]]],
    "D2": ["c17/a", [["varint", "n"], ["datetime", "t"]]],
    "D3": ["sqlite3/c17", [["varint", "n"], ["string", "s"]]],
    # identifier twins: same name and 32-bit hash, different fields (the hash input is name + field name + type name
    # per field without separators: "s"+"string"+"t"+"string" == "sstringt"+"string")
    "D4": ["c17/tw", [["varint", "n"], ["string", "s"], ["string", "t"]]],
    "D5": ["c17/tw", [["varint", "n"], ["string", "sstringt"]]],
}


def budget(tier):
    return N_SYS + (60000 if tier == "quick" else 3000000)


def wall_cap(tier):
    return 300 if tier == "quick" else 600


# -- generation ---------------------------------------------------------------------------------
def history_plan(tkind, uri, body, term, count=2, sl=2, multi=False, bufsize=8192):
    ops = []
    for ch in body:
        ops.append({"op": "write", "desc": "D0"} if ch == "w" else {"op": "flush"})
    for ch in term:
        ops.append({"c": {"op": "close"}, "f": {"op": "flush"}, "X": {"op": "exit"}, "R": {"op": "raise_exit"}}[ch])
    return {"sub": "history", "target": tkind, "uri": uri, "count": count, "sl": sl, "with": term[0] in "XR", "ops": ops, "pool": POOL, "buffer_size": bufsize}


def generate(rng, tier, index):
    if index < N_SYS:
        t = index // (len(BODIES) * len(TERMINATORS))
        r = index % (len(BODIES) * len(TERMINATORS))
        body = BODIES[r // len(TERMINATORS)]
        term = TERMINATORS[r % len(TERMINATORS)]
        tkind, uri = TARGETS[t]
        return history_plan(tkind, uri, body, term, count=2, sl=2)
    if rng.random() < 0.5:
        return gen_archive(rng, tier)
    # random longer histories, biased to split arithmetic
    tkind, uri = rng.choice(TARGETS + [t for t in TARGETS if t[0].startswith("split")] * 3)
    if rng.random() < 0.06:
        tkind, uri = rng.choice(STDOUT_TARGETS)  # the documented way of writing to standard output
    count = rng.choice([1, 2, 3, 4, 5, 7])
    sl = rng.choice([1, 2, 3])
    n = rng.randrange(0, 3 * count + 3)
    if sl == 1 and tkind.startswith("split") and rng.random() < 0.4:
        n = rng.randrange(9 * count, 13 * count + 2)  # more parts than a 1-digit suffix can count
    multi = tkind not in ("avro",) and rng.random() < 0.6
    ops = []
    for i in range(n):
        ops.append({"op": "write", "desc": rng.choice(["D0", "D1", "D2", "D3", "D4", "D5", "D4", "D5", "G", "G"]) if multi else "D0"})
        r = rng.random()
        if r < 0.15:
            ops.append({"op": "flush"})
        elif r < 0.22:
            ops.append({"op": "write", "desc": "D0", "huge": True})  # a value some adapters refuse (2**70): the caller goes on
        elif r < 0.27 and tkind != "sqlite":
            ops.append({"op": "fault_open"})  # the next open of an output file fails once (full disk, permissions)
    term = rng.choice(TERMINATORS)
    for ch in term:
        ops.append({"c": {"op": "close"}, "f": {"op": "flush"}, "X": {"op": "exit"}, "R": {"op": "raise_exit"}}[ch])
    return {"sub": "history", "target": tkind, "uri": uri, "count": count, "sl": sl, "with": term[0] in "XR", "ops": ops, "pool": POOL,
            "buffer_size": rng.choice([1, 7, 64, 8192]), "neighbour": rng.random() < 0.35, "fd1": rng.random() < 0.1}  # fmt: skip


DELTAS_US = [0, 1, 400000, 1000000, 60 * 1000000, 61 * 1000000, 59 * 60 * 1000000, 3600 * 1000000, 86400 * 1000000, -3600 * 1000000, -86400 * 1000000, 2 * 3600 * 1000000]


def gen_archive(rng, tier):
    kind = rng.choice(["archiver", "archiver", "template-hour", "template-day", "template-name", "template-field", "template-minute", "archive-uri",
                      "template-hour-zst", "template-hour-lz4", "template-hour-bz2", "template-tilde", "template-hour-jsonl", "template-hour-csv"])
    n_ops = rng.choice([3, 5, 8, 12, 20, 30]) if tier == "quick" else rng.choice([3, 6, 10, 20, 40])
    burst = rng.random() < 0.5  # many events inside one second
    ops = []
    for _ in range(n_ops):
        r = rng.random()
        if r < 0.55:
            op = {"op": "write", "s": rng.choice(["a", "b", "c", "A", "%41", "a b"])}
            if rng.random() < 0.25:
                op["skew_us"] = rng.choice([-3600, 3600, -86400, 7200, -1]) * 1000000  # record stamped by another host
            if rng.random() < 0.12:
                op["tz_min"] = rng.choice([120, 345, -480, 60, -30])  # stamped in a local time zone: `ts` is record._generated as it is
            ops.append(op)
        elif r < 0.85:
            dts = [0, 1, 400000, 3600 * 1000000, -3600 * 1000000] if burst else DELTAS_US
            ops.append({"op": "advance", "dt_us": rng.choice(dts)})
        elif r < 0.87:
            # the next rotation's rename, or the next open of a new archive file, fails once (permissions, full disk)
            ops.append({"op": "fault", "what": rng.choice(["rename", "open_w"]), "errno": rng.choice(["EACCES", "ENOSPC", "ENAMETOOLONG"])})
        elif r < 0.90:
            ops.append({"op": "restart"})
        elif r < 0.95:
            ops.append({"op": "precreate", "s": rng.choice(["a", "b"]), "skew_us": rng.choice([0, 3600 * 1000000])})
        else:
            ops.append({"op": "close"})
    if rng.random() < 0.04:
        # a burst: many short-lived writers for the same path inside one second (each one rotates the previous file)
        ops = []
        for _ in range(rng.choice([70, 130])):
            ops += [{"op": "write", "s": "a"}, {"op": "restart"}]
    ops.append({"op": "close"})
    return {"sub": "archive", "kind": kind, "ops": ops, "pool": POOL, "name": rng.choice(["records", "x"]), "buffer_size": rng.choice([64, 8192])}


# -- decoding of targets --------------------------------------------------------------------------
def _decompress(kind, data):
    if kind.endswith("gz"):
        return gzip.decompress(data)
    if kind.endswith("bz2"):
        return bz2.decompress(data)
    if kind.endswith("lz4"):
        out = b""
        rest = data
        while rest:  # a flush ends an lz4 frame; a file may hold several
            d = lz4.frame.LZ4FrameDecompressor()
            out += d.decompress(rest)
            if not d.eof:
                raise ValueError("truncated lz4 frame")
            rest = d.unused_data
        return out
    if kind.endswith("zst"):
        return zstandard.ZstdDecompressor().stream_reader(io.BytesIO(data), read_across_frames=True).read()
    return data


def _ids_from_stream_bytes(plain):
    """Independent route: frame walker; the sequence number is the first value of each record."""
    frames, stop, reason = refcodec.walk(plain)
    ids = []
    for f in frames:
        if f.kind == "REC":
            v = f.info["values"][0]
            if isinstance(v, refcodec.Ext):  # integers beyond 64 bits travel as (negative?, big-endian bytes)
                neg, b = v.value
                x = int.from_bytes(b, "big")
                v = -x if neg else x
            ids.append(v)
        elif f.kind == "GROUPED":
            v = f.info["values"][0][1][0]  # first member's first value
            if isinstance(v, refcodec.Ext):
                neg, b = v.value
                x = int.from_bytes(b, "big")
                v = -x if neg else x
            ids.append(v)
    out = ids
    return out, reason, sum(1 for f in frames if f.kind == "HEADER")


def lib_read_ids(uri):
    from flow.record import RecordReader

    rd = RecordReader(uri)
    out = []
    try:
        for r in rd:
            out.append((int(r.n), _sval(r)))
    finally:
        try:
            rd.close()
        except Exception:  # noqa: BLE001
            pass
    return out


def _sval(r):
    if hasattr(r, "s"):
        return None if r.s is None else str(r.s)
    return "t"


def decode_target(w, kind, path, data):
    """-> dict(lib=[(n, s)...] or None, ind=[n...], lib_err, ind_err)"""
    res = {"lib": None, "ind": None, "lib_err": None, "ind_err": None}
    base = kind.replace("split-", "")
    try:
        if base in ("stream", "gz") or base.startswith("stream"):
            plain = _decompress(base if base != "stream" else "", data) if data else b""
            ids, reason, nhdr = _ids_from_stream_bytes(plain)
            res["ind"] = ids
            if reason != "end":
                res["ind_err"] = "stream does not end on a frame boundary (%s)" % reason
            elif nhdr == 0:
                res["ind_err"] = "no header frame"
        elif base == "json":
            ids = []
            for line in data.decode("utf-8").splitlines():
                o = json.loads(line)
                if o.get("_type") == "record":
                    ids.append(o["n"])
            res["ind"] = ids
        elif base == "csv":
            rows = list(csv.reader(io.StringIO(data.decode("utf-8"), newline="")))
            ids = []
            for row in rows:
                if row and row[0] == "n":
                    continue
                ids.append(int(row[0]))
            res["ind"] = ids
        elif base == "line":
            ids = []
            for line in data.decode("utf-8").splitlines():
                if line.strip().startswith("n ="):
                    ids.append(int(line.split("=", 1)[1]))
            res["ind"] = ids
        elif base == "text":
            ids = []
            for line in data.decode("utf-8").splitlines():
                if line.startswith("<") and " n=" in line:
                    ids.append(int(line.split("n=", 1)[1].split(" ", 1)[0].rstrip(">")))
            res["ind"] = ids
        elif base == "avro":
            import fastavro

            res["ind"] = [o["n"] for o in fastavro.reader(io.BytesIO(data))]
    except Exception as e:  # noqa: BLE001
        res["ind_err"] = "%s: %s" % (type(e).__name__, short(str(e), 120))
    if base in ("stream", "gz", "json", "avro") or base.startswith("stream"):
        try:
            uri = path if base != "json" or path.endswith(".json") else "jsonfile://" + path
            res["lib"] = lib_read_ids(uri)
        except Exception as e:  # noqa: BLE001
            res["lib_err"] = "%s: %s" % (type(e).__name__, short(str(e), 120))
    return res


def _viol(inv, detail, info=None):
    return {"invariant": inv, "detail": detail, "info": info or {}}


class Want(list):
    """The ids of acknowledged writes, compared leniently with respect to ``optional`` ids: a write that raised
    may or may not have stored its record (0 or 1 copies, never more), everything else must match exactly."""

    def __init__(self, ids, optional=()):
        super().__init__(ids)
        self.optional = set(optional)

    def _same(self, other):
        other = list(other)
        if any(other.count(o) > 1 for o in self.optional):
            return False
        return [x for x in other if x not in self.optional] == list(self)

    def __eq__(self, other):
        return self._same(other)

    def __ne__(self, other):
        return not self._same(other)

    __hash__ = None


# -- sub-scenario: histories ------------------------------------------------------------------------
def run_history(plan, w, viols, states):
    from flow.record import RecordWriter

    kind = plan["target"]
    scratch = None
    uri = plan["uri"]
    if "{scratch}" in uri:
        scratch = tempfile.mkdtemp(prefix="simfr-c17-", dir="/dev/shm" if os.path.isdir("/dev/shm") else None)
        uri = uri.replace("{scratch}", scratch)
    uri = uri.replace("{count}", str(plan["count"])).replace("{sl}", str(plan["sl"]))
    w.fs.buffer_size = plan.get("buffer_size", 8192)
    w.sim_cwd = "/simfs/cwd"
    w.fs.makedirs("/simfs/cwd/sub", exist_ok=True)
    so_ino = None
    if _is_stdout_uri(uri):
        so_ino = w.set_stdout()
        w.probe("target-is-stdout")
    if plan.get("fd1") and so_ino is None:
        w.fs.next_fd = 1  # a daemonised process: stdout was closed, the first file opened gets descriptor 1
        w.probe("output-file-is-fd-1")
    pool = Pool(plan["pool"])
    model = []  # (n, s) of records whose write returned
    optional = set()  # ids of writes that raised: refused, but possibly stored
    attempted = 0
    refused = 0
    closed = False
    shape = []
    part_events_before = len(w.fs.events)

    def add(v):
        if not any(x["invariant"] == v["invariant"] for x in viols):
            viols.append(v)

    try:
        try:
            writer = RecordWriter(uri)
        except Exception as e:  # noqa: BLE001
            add(_viol("C17.open-raises", "RecordWriter(%r) raised %s: %s" % (plan["uri"], type(e).__name__, e)))
            return
        w.keep.append(writer)
        if plan.get("with"):
            writer = writer.__enter__()
        w.log("w", "open", kind)
        # a neighbour: a second writer of the same kind, open at the same time, writing its own records to its own
        # target in between (codec contexts, caches and class-level state must not leak between writers)
        neighbour = None
        nb_model = []
        if plan.get("neighbour") and kind not in ("sqlite",) and not kind.startswith("split"):
            nb_uri = uri.replace("/simfs/o.", "/simfs/nb/o.").replace("rel.records", "nb/rel.records")
            if nb_uri != uri:
                w.fs.makedirs("/simfs/nb", exist_ok=True)
                w.fs.makedirs("/simfs/cwd/nb", exist_ok=True)
                neighbour = RecordWriter(nb_uri)
                w.keep.append(neighbour)
                w.probe("two-writers-open")
        closes = 0
        bytes_at_first_close = None
        for op in plan["ops"]:
            k = op["op"]
            if k == "write":
                if closed:
                    continue
                n = attempted
                attempted += 1
                if op.get("huge"):
                    n = 2**70 + n
                desc = op.get("desc", "D0")
                if desc == "D2":
                    rec = pool.make("D2", [n, enc_value(_dt.datetime(2024, 1, 2, 3, 4, 5, tzinfo=_dt.timezone.utc))])
                elif desc == "D1":
                    rec = pool.make("D1", [n, "v%d" % n, bool(n % 2)])
                elif desc == "D3":
                    rec = pool.make("D3", [n, "v%d" % n])
                elif desc == "G":
                    from flow.record import GroupedRecord

                    # a grouped record: counts as ONE record for split limits and for conservation
                    rec = GroupedRecord("c17/grp", [pool.make("D0", [n, "v%d" % n]), pool.make("D1", [n, "x", True]), pool.make("D3", [n, "y"])])
                elif desc == "D4":
                    rec = pool.make("D4", [n, "v%d" % n, "w"])
                elif desc == "D5":
                    rec = pool.make("D5", [n, "z"])
                else:
                    rec = pool.make("D0", [n, "v%d" % n])
                if neighbour is not None:
                    nrec = pool.make("D0", [1000 + attempted, "nb%d" % attempted])
                    neighbour.write(nrec)
                    nb_model.append(1000 + attempted)
                try:
                    writer.write(rec)
                    model.append((n, "v%d" % n if desc not in ("D2", "D5") else "t"))
                    shape.append("w")
                    w.log("w", "write", n, "-> ok")
                except Exception as e:  # noqa: BLE001
                    refused += 1
                    optional.add(n)
                    shape.append("!")
                    w.probe("write-refused")
                    w.log("w", "write", n, "->", type(e).__name__)
            elif k == "fault_open":
                if not closed:
                    w.fs.inject["open_w"] = "ENOSPC"
                    w.log("fault", "arm", "open_w")
            elif k == "flush":
                if closed:
                    continue
                try:
                    writer.flush()
                    shape.append("f")
                    w.log("w", "flush", "-> ok")
                except Exception as e:  # noqa: BLE001
                    if not (optional or w.stats["fault:open_error"]):
                        add(_viol("C17.flush-raises", "flush() raised %s: %s after %s" % (type(e).__name__, e, "".join(shape))))
                    w.log("w", "flush", "->", type(e).__name__)
            elif k in ("close", "exit", "raise_exit"):
                try:
                    if k == "close":
                        writer.close()
                    elif k == "exit":
                        writer.__exit__(None, None, None)
                    else:
                        exc = RuntimeError("body of the with-block failed")
                        writer.__exit__(RuntimeError, exc, None)
                        w.probe("with-body-raised")
                    w.log("w", k, "-> ok")
                except Exception as e:  # noqa: BLE001
                    w.log("w", k, "->", type(e).__name__)
                    if closed:
                        add(_viol("C17.double-close", "closing an already closed %s writer raised %s: %s" % (kind, type(e).__name__, e)))
                    elif not (optional or w.stats["fault:open_error"]):
                        add(_viol("C17.close-raises", "%s on a %s writer raised %s: %s (history %s)" % (k, kind, type(e).__name__, e, "".join(shape))))
                shape.append({"close": "c", "exit": "X", "raise_exit": "R"}[k])
                closes += 1
                if closes == 1:
                    bytes_at_first_close = snapshot_targets(w, kind, scratch, so_ino)
                elif closes >= 2:
                    w.probe("double-close")
                    now = snapshot_targets(w, kind, scratch, so_ino)
                    if now != bytes_at_first_close:
                        add(_viol("C17.double-close", "closing a %s writer a second time changed its output (%d files before, %d after)" % (kind, len(bytes_at_first_close), len(now))))
                closed = True
        if not closed:
            return
        nb_files = {}
        if neighbour is not None:
            neighbour.flush()
            neighbour.close()
            for pth in [x for x in w.fs.listing() if "/nb/" in x]:
                nb_files[pth] = w.fs.files.pop(pth)
        states.add("%s|%s" % (kind, "".join(shape)[:12]))
        w.fs.inject.clear()
        check_history(plan, w, kind, uri, scratch, model, shape, add, optional, so_ino)
        for pth, ino in nb_files.items():
            w.fs.files[pth] = ino
            res = decode_target(w, kind, pth, bytes(ino.data))
            got = res["ind"] if res["ind"] is not None else []
            if res["ind_err"] or got != nb_model:
                add(_viol("C17.lost", "a second %s writer open at the same time lost or mixed records: its file decodes to %s (%s), written %s" % (kind, short(got, 60), res["ind_err"], short(nb_model, 60)),
                          {"kind": kind, "history": "".join(shape), "neighbour": True}))  # fmt: skip
    finally:
        if scratch:
            w.keep.clear()
            shutil.rmtree(scratch, ignore_errors=True)


def snapshot_targets(w, kind, scratch, so_ino=None):
    if so_ino is not None:
        try:
            sys.stdout.flush()
        except Exception:  # noqa: BLE001
            pass
        return {"<stdout>": bytes(so_ino.data)}
    if kind == "sqlite":
        p = os.path.join(scratch, "o.db")
        return {"o.db": open(p, "rb").read() if os.path.exists(p) else None}
    return {p: w.fs.get(p) for p in w.fs.listing()}


def _is_stdout_uri(uri):
    return "://" in uri and uri.split("://", 1)[1].split("?", 1)[0] in ("", "-")


def check_history(plan, w, kind, uri, scratch, model, shape, add, optional=(), so_ino=None):
    want_ids = Want([n for n, _ in model], optional)
    model = [m for m in model]
    hist = "".join(shape)
    if so_ino is not None:
        # what the process leaves on its standard output: the interpreter flushes sys.stdout at exit, nothing else
        try:
            sys.stdout.flush()
        except Exception as e:  # noqa: BLE001
            add(_viol("C17.close-raises", "standard output cannot be flushed after the %s writer was closed: %s: %s (history %s)" % (kind, type(e).__name__, e, hist)))
            return
        stray = created_in_order(w)
        if stray:
            add(_viol("C17.placement", "%s writer on standard output created files: %s" % (kind, short(stray, 80)), {"kind": kind, "history": hist}))
        path = "/simfs/stdout-capture" + STDOUT_EXT[kind]
        w.fs.put(path, bytes(so_ino.data))
        res = decode_target(w, kind, path, bytes(so_ino.data))
        judge_file(add, kind, hist, want_ids, model, res, w, empty_ok_kinds=True)
        return
    if kind == "sqlite":
        p = os.path.join(scratch, "o.db")
        try:
            con = sqlite3.connect(p)
            tables = [r[0] for r in con.execute("SELECT name FROM sqlite_master WHERE type='table'")]
            ids = []
            for t in tables:
                ids += [r[0] for r in con.execute('SELECT n FROM "%s" ORDER BY rowid' % t)]
            con.close()
        except Exception as e:  # noqa: BLE001
            add(_viol("C17.empty-invalid" if not model else "C17.lost", "sqlite3 cannot read the database after history %s: %s" % (hist, e)))
            return
        if Want(sorted(want_ids), optional) != sorted(ids):
            _report_ids(add, kind, hist, want_ids, sorted(ids), "independent sqlite3 connection", "")
        try:
            got = sorted(lib_read_ids("sqlite://" + p))
            if Want(sorted(want_ids), optional) != [g[0] for g in got]:
                _report_ids(add, kind, hist, sorted(want_ids), [g[0] for g in got], "SqliteReader", "")
            if not model:
                w.probe("empty-output-read")
        except Exception as e:  # noqa: BLE001
            add(_viol("C17.empty-invalid" if not model else "C17.lost", "SqliteReader raised %s: %s after history %s" % (type(e).__name__, e, hist)))
        return

    files = [(p, w.fs.get(p)) for p in created_in_order(w)]
    if not kind.startswith("split"):
        if len(files) != 1:
            add(_viol("C17.lost", "%s writer produced %d files, expected 1 (history %s)" % (kind, len(files), hist)))
            return
        path, data = files[0]
        named = uri.split("://", 1)[-1].split("?", 1)[0]
        named = named if named.startswith("/") else "/simfs/cwd/" + named
        if path != named:
            add(_viol("C17.placement", "%s writer was given %s but wrote %s" % (kind, named, path), {"kind": kind, "history": hist}))
        res = decode_target(w, kind, path, data)
        judge_file(add, kind, hist, want_ids, model, res, w, empty_ok_kinds=True)
        return
    # ---- split ------------------------------------------------------------------------------------
    limit = plan["count"]
    named = uri.split("://", 1)[-1].split("?", 1)[0]
    named = named if named.startswith("/") else "/simfs/cwd/" + named
    stem = named[: named.index(".", named.rindex("/"))] if "." in named[named.rindex("/") :] else named
    for pth, _ in files:
        if not pth.startswith(stem + "."):
            add(_viol("C17.placement", "split part %s is not named after the target %s" % (pth, named), {"kind": kind, "history": hist}))
    all_ind, all_lib = [], []
    lib_ok = True
    for i, (path, data) in enumerate(files):
        res = decode_target(w, kind, path, data)
        base = kind.replace("split-", "")
        if res["ind_err"] and not (len(res["ind"] or []) == 0 and i == len(files) - 1):
            add(_viol("C17.split-part-unreadable", "part %s of a %s split is not readable on its own: %s (history %s)" % (path, base, res["ind_err"], hist)))
        if res["ind"] is not None and len(res["ind"]) > limit:
            add(_viol("C17.split-limit", "part %s holds %d records, limit is %d (history %s)" % (path, len(res["ind"]), limit, hist), {"n": len(res["ind"]), "limit": limit}))
        all_ind += res["ind"] or []
        if base in ("stream", "gz", "json"):
            if res["lib_err"]:
                n_in = len(res["ind"] or [])
                if n_in == 0:
                    # a trailing (or only) part without records: the property asks for a valid empty output
                    add(_viol("C17.empty-invalid", "part %s of a %s split holds no records and is rejected by the reader: %s (history %s)" % (path, base, res["lib_err"], hist),
                              {"kind": kind, "records_in_file": 0, "history": hist, "err": res["lib_err"], "part": i, "parts": len(files), "limit": limit}))  # fmt: skip
                else:
                    add(_viol("C17.split-part-unreadable", "part %s of a %s split is rejected by the reader: %s (history %s)" % (path, base, res["lib_err"], hist)))
                lib_ok = False
            else:
                all_lib += [g[0] for g in res["lib"]]
                w.probe("split-part-readable")
    if len(set(p for p, _ in files)) != len(files):
        add(_viol("C17.duplicated", "a split part was created twice"))
    creates = [e for e in w.fs.events if e[0] in ("truncate",)]
    if creates:
        add(_viol("C17.overwrite", "a split part was opened for writing twice and truncated: %r" % (creates[0],)))
    if all_ind != want_ids:
        _report_ids(add, kind, hist, want_ids, all_ind, "independent decoding of the parts in creation order", "")
    if lib_ok and kind.replace("split-", "") in ("stream", "gz", "json") and all_lib != want_ids:
        _report_ids(add, kind, hist, want_ids, all_lib, "library reader over the parts in creation order", "")
    if want_ids and len(want_ids) % limit == 0:
        w.probe("split-exact-multiple")
    # raw byte concatenation reads as one stream (stream targets of every codec, JSON lines)
    base = kind.replace("split-", "")
    if base in ("stream", "gz", "json") and files:
        cat = b"".join(d for _, d in files)
        ext = {"stream": ".records", "gz": ".records.gz", "json": ".jsonl"}[base]
        w.fs.put("/simfs/cat" + ext, cat)
        try:
            got = [g[0] for g in lib_read_ids(("jsonfile://" if base == "json" else "") + "/simfs/cat" + ext)]
            if got != want_ids:
                _report_ids(add, kind, hist, want_ids, got, "reading the byte concatenation of all parts as one stream", "C17.split-concat")
        except Exception as e:  # noqa: BLE001
            # an empty trailing part without header (known finding territory) makes the concatenation end there: only
            # complain when records are missing
            if want_ids:
                try:
                    plain = _decompress(base if base != "stream" else "", cat) if base != "json" else cat
                except Exception:  # noqa: BLE001
                    plain = None
                add(_viol("C17.split-concat", "byte concatenation of the parts is not readable as one stream: %s: %s (history %s)" % (type(e).__name__, short(str(e), 100), hist)))


def created_in_order(w):
    seen = []
    for e in w.fs.events:
        if e[0] == "create" and e[1] not in seen and w.fs.isfile(e[1]):
            seen.append(e[1])
    return seen


def _report_ids(add, kind, hist, want, got, route, inv):
    ws, gs = list(want), list(got)
    if inv:
        pass
    elif len(gs) < len(ws) or any(x not in gs for x in ws):
        inv = "C17.lost"
    elif len(gs) > len(ws):
        inv = "C17.duplicated"
    else:
        inv = "C17.order"
    missing = [x for x in ws if x not in gs]
    add(_viol(inv, "%s writer, history %s: %s yields record ids %s, written %s (missing %s)" % (kind, hist, route, short(gs, 80), short(ws, 80), short(missing, 60)),
              {"kind": kind, "history": hist, "want": len(ws), "got": len(gs)}))  # fmt: skip


def judge_file(add, kind, hist, want_ids, model, res, w, empty_ok_kinds):
    readable_kinds = ("stream", "stream-gz", "stream-bz2", "stream-lz4", "stream-zst", "json", "avro")
    if not model:
        if kind in readable_kinds:
            w.probe("empty-output-read")
            if res["lib_err"] or (res["lib"] or []):
                add(_viol("C17.empty-invalid", "%s writer opened and closed without records (history %s) leaves an output the reader rejects: %s" % (kind, hist, res["lib_err"] or "yields records"),
                          {"kind": kind, "records_in_file": 0, "history": hist, "err": res["lib_err"] or ""}))  # fmt: skip
        return
    if res["ind_err"] and (res["ind"] is None or len(res["ind"]) < len(want_ids)):
        add(_viol("C17.lost", "%s writer, history %s: independent decoding fails: %s (got %s of %d records)" % (kind, hist, res["ind_err"], len(res["ind"] or []), len(want_ids)),
                  {"kind": kind, "history": hist}))  # fmt: skip
    elif res["ind"] != want_ids:
        _report_ids(add, kind, hist, want_ids, res["ind"], "independent decoding", "")
    if kind in readable_kinds:
        if res["lib_err"]:
            add(_viol("C17.lost", "%s writer, history %s: the library reader raises %s" % (kind, hist, res["lib_err"]), {"kind": kind, "history": hist}))
        else:
            if [g[0] for g in res["lib"]] != want_ids:
                _report_ids(add, kind, hist, want_ids, [g[0] for g in res["lib"]], "library reader", "")
            elif not getattr(want_ids, "optional", None) and [g[1] for g in res["lib"]] != [s for _, s in model]:
                add(_viol("C17.order", "%s writer, history %s: record payloads differ from what was written" % (kind, hist)))


# -- sub-scenario: archive --------------------------------------------------------------------------
def expected_path(plan, root, name, gen_ts, s):
    kind = plan["kind"]
    if kind in ("archiver", "archive-uri"):
        return "%s/%s/%s-%s.records.gz" % (root, gen_ts.strftime("%Y/%m/%d"), name, gen_ts.strftime("%Y%m%dT%H"))
    if kind == "template-hour":
        return "%s/%s-%s.records.gz" % (root, name, gen_ts.strftime("%Y%m%dT%H"))
    if kind == "template-day":
        return "%s/d/%s.records" % (root, gen_ts.strftime("%Y-%m-%d"))
    if kind == "template-name":
        return "%s/%s.records.gz" % (root, name)
    if kind == "template-field":
        return "%s/by/%s.records.gz" % (root, s)
    if kind == "template-minute":
        return "%s/m/%s-%s.records" % (root, name, gen_ts.strftime("%Y%m%dT%H%M"))
    if kind == "template-tilde":
        return "/simfs/cwd/~/arch/%s-%s.records.gz" % (name, gen_ts.strftime("%Y%m%dT%H"))
    if kind in ("template-hour-jsonl", "template-hour-csv"):
        return "%s/%s-%s.%s" % (root, name, gen_ts.strftime("%Y%m%dT%H"), kind.rsplit("-", 1)[1])
    if kind.startswith("template-hour-"):
        return "%s/%s-%s.records.%s" % (root, name, gen_ts.strftime("%Y%m%dT%H"), kind.rsplit("-", 1)[1])
    raise ValueError(kind)


def make_archiver(plan, root, name):
    from flow.record import PathTemplateWriter, RecordArchiver, RecordWriter

    kind = plan["kind"]
    if kind == "archiver":
        return RecordArchiver(root, name=name)
    if kind == "archive-uri":
        return RecordWriter("archive://%s?name=%s" % (root, name))
    tmpl = {
        "template-hour": root + "/{name}-{record._generated:%Y%m%dT%H}.records.gz",
        "template-day": root + "/d/{ts:%Y-%m-%d}.records",
        "template-name": root + "/{name}.records.gz",
        "template-field": root + "/by/{record.s}.records.gz",
        "template-minute": root + "/m/{name}-{ts:%Y%m%dT%H%M}.records",
        "template-tilde": "~/arch/{name}-{ts:%Y%m%dT%H}.records.gz",  # "~" is just a directory name here
        "template-hour-zst": root + "/{name}-{record._generated:%Y%m%dT%H}.records.zst",
        "template-hour-lz4": root + "/{name}-{record._generated:%Y%m%dT%H}.records.lz4",
        "template-hour-bz2": root + "/{name}-{record._generated:%Y%m%dT%H}.records.bz2",
        "template-hour-jsonl": root + "/{name}-{record._generated:%Y%m%dT%H}.jsonl",
        "template-hour-csv": root + "/{name}-{record._generated:%Y%m%dT%H}.csv",
    }[kind]
    return PathTemplateWriter(tmpl, name=name)


def run_archive(plan, w, viols, states):
    from flow.record import RecordWriter

    root = "/simfs/arch" if plan["kind"] != "template-tilde" else "/simfs/cwd/~/arch"
    name = plan.get("name", "records")
    w.sim_cwd = "/simfs/cwd"
    w.fs.makedirs("/simfs/cwd", exist_ok=True)
    w.fs.makedirs(root, exist_ok=True)
    w.fs.buffer_size = plan.get("buffer_size", 8192)
    pool = Pool(plan["pool"])
    placed = {}  # record id -> expected template path
    written = []
    n = 0
    arch = make_archiver(plan, root, name)
    w.keep.append(arch)
    closed = False
    rotations = 0
    restarts = 0
    pre = 0
    buckets = set()
    rot_seen = set()
    segment = {}  # template path -> ids in the file that is at that path *now* (reset whenever the writer must rotate it away)
    model_current = [None]  # the path this archiver incarnation is appending to

    def add(v):
        if not any(x["invariant"] == v["invariant"] for x in viols):
            viols.append(v)

    def check_events(step):
        for e in w.fs.events:
            if e[0] == "overwrite":
                add(_viol("C17.overwrite", "step %d: rename %s -> %s replaced an existing file" % (step, e[2], e[3]), {"how": "rename", "src": e[2], "dst": e[3]}))
            elif e[0] == "truncate":
                add(_viol("C17.overwrite", "step %d: existing file %s (%d bytes) was opened for writing and truncated" % (step, e[1], e[3]), {"how": "truncate", "path": e[1]}))

    for step, op in enumerate(plan["ops"]):
        k = op["op"]
        if k == "advance":
            w.clock.advance_us(op["dt_us"])
            dt = op["dt_us"]
            buckets.add("0" if dt == 0 else "sub" if 0 < dt < 1000000 else "neg" if dt < 0 else "s" if dt < 3600000000 else "h+")
            if dt < 0:
                w.probe("clock-backward")
            w.log("clock", "advance", dt)
        elif k == "fault":
            w.fs.inject[op["what"]] = op.get("errno", "EACCES")
            w.log("fault", "arm", op["what"])
        elif k == "write":
            if closed:
                arch = make_archiver(plan, root, name)
                w.keep.append(arch)
                closed = False
                restarts += 1
            rec = pool.make("D0", [n, op["s"]])
            if op.get("skew_us"):
                rec._generated = w.clock.now() + _dt.timedelta(microseconds=op["skew_us"])
                w.probe("skewed-stamp")
            if op.get("tz_min"):
                rec._generated = rec._generated.astimezone(_dt.timezone(_dt.timedelta(minutes=op["tz_min"])))
                w.probe("stamp-with-utc-offset")
            gen_ts = rec._generated
            path = expected_path(plan, root, name, gen_ts, op["s"])
            before = len([e for e in w.fs.events if e[0] in MOVES])
            fired_before = w.stats["fault:rename_error"] + w.stats["fault:open_error"]
            try:
                arch.write(rec)
                placed[n] = path
                written.append(n)
                if model_current[0] != path:
                    # a switch to this path: whatever file is there belongs to an earlier time and is rotated away
                    segment[path] = []
                    model_current[0] = path
                segment[path].append(n)
                w.log("arch", "write", n, path[len(root):], "-> ok")
            except Exception as e:  # noqa: BLE001
                w.probe("write-refused")
                w.log("arch", "write", n, "->", type(e).__name__)
                if w.stats["fault:rename_error"] + w.stats["fault:open_error"] == fired_before:
                    add(_viol("C17.write-raises", "step %d: archiving a record raised %s: %s" % (step, type(e).__name__, short(str(e), 120))))
                else:
                    w.probe("write-refused-by-injected-fault")  # refused, not lost: the record is not in the model
                    if len([e for e in w.fs.events if e[0] in MOVES]) > before or not w.fs.isfile(path):
                        segment.pop(path, None)  # the old file was moved away before the open of the new one failed
            after = len([e for e in w.fs.events if e[0] in MOVES])
            if after > before:
                rotations += after - before
                w.probe("rotation")
                for e in [e for e in w.fs.events if e[0] in MOVES][before:]:
                    key = (e[1], int(w.clock.timestamp()))
                    if key in rot_seen:
                        w.probe("same-second-rotation")
                    rot_seen.add(key)
            n += 1
        elif k == "close":
            try:
                arch.close()
            except Exception as e:  # noqa: BLE001
                add(_viol("C17.close-raises", "step %d: archiver close raised %s: %s" % (step, type(e).__name__, e)))
            closed = True
            model_current[0] = None
            w.log("arch", "close")
        elif k == "restart":
            try:
                arch.close()
            except Exception:  # noqa: BLE001
                pass
            arch = make_archiver(plan, root, name)
            w.keep.append(arch)
            closed = False
            model_current[0] = None
            restarts += 1
            w.probe("restart")
            w.log("arch", "restart")
        elif k == "precreate":
            # some other process left a file where the writer may want to write next
            gen_ts = w.clock.now() + _dt.timedelta(microseconds=op.get("skew_us", 0))
            path = expected_path(plan, root, name, gen_ts, op["s"])
            if not w.fs.exists(path):
                w.fs.makedirs(os.path.dirname(path), exist_ok=True)
                rec = pool.make("D0", [n, op["s"]])
                armed = dict(w.fs.inject)  # the armed fault is meant for the archiver, not for this other process
                w.fs.inject.clear()
                ww = RecordWriter(path)
                ww.write(rec)
                ww.flush()
                ww.close()
                w.fs.inject.update(armed)
                placed[n] = path
                written.append(n)
                segment[path] = [n]
                n += 1
                pre += 1
                w.log("other", "precreate", path[len(root):])
        check_events(step)
        # same-second rotation probe
    rn = [e for e in w.fs.events if e[0] in MOVES]
    if pre and any(e for e in rn):
        w.probe("pre-existing-rotated")
    w.fs.inject.clear()
    if not closed:
        arch.close()
    # ---- conservation and placement ---------------------------------------------------------------
    origin = {}  # inode -> path it was created at
    for e in w.fs.events:
        if e[0] == "create":
            origin[e[2]] = e[1]
    found = collections.Counter()
    for path in w.fs.listing():
        if not path.startswith(root + "/"):
            continue
        ino = w.fs.files[path].ino
        try:
            ids = [g[0] for g in lib_read_ids(path)]
        except Exception as e:  # noqa: BLE001
            data = w.fs.get(path)
            if not data:
                continue
            add(_viol("C17.conservation", "archive file %s is not readable: %s: %s" % (path, type(e).__name__, short(str(e), 100))))
            continue
        for i in ids:
            found[i] += 1
            if i in placed and origin.get(ino) != placed[i]:
                add(_viol("C17.placement", "record %d belongs to %s but sits in %s (a file first created as %s)" % (i, placed[i], path, origin.get(ino))))
    # the file that is at a template path now holds exactly what was written there since it was (re)created
    for path in sorted(segment):
        if not w.fs.isfile(path):
            add(_viol("C17.placement", "no file at %s although records %s were archived there" % (path, short(segment[path], 60))))
            continue
        try:
            ids = [g[0] for g in lib_read_ids(path)]
        except Exception:  # noqa: BLE001
            continue  # reported by the conservation pass above
        if ids != segment[path]:
            add(_viol("C17.placement", "the file at %s holds records %s; since it was last (re)created records %s were archived to that path (the others must be in rotated files, these must be here)" % (
                path, short(ids, 60), short(segment[path], 60)), {"path": path}))  # fmt: skip
    lost = [i for i in written if found[i] == 0]
    dup = [i for i in written if found[i] > 1]
    extra = [i for i in found if i not in placed]
    if lost:
        add(_viol("C17.conservation", "records %s were archived (write returned) but are in no file under the archive root; %d of %d survive" % (short(lost, 80), len(written) - len(lost), len(written)),
                  {"lost": len(lost)}))  # fmt: skip
    if dup or extra:
        add(_viol("C17.duplicated", "records found more than once or never written: dup=%s extra=%s" % (short(dup, 60), short(extra, 60))))
    states.add("archive|%s|rot%d|%s|rs%d|pre%d" % (plan["kind"], min(rotations, 4), ",".join(sorted(buckets)), min(restarts, 2), min(pre, 2)))


# -- execute ------------------------------------------------------------------------------------------
def execute(plan, keep_log=False):
    viols = []
    states = set()
    with World(keep_log=keep_log) as w:
        if plan["sub"] == "history":
            run_history(plan, w, viols, states)
        else:
            run_archive(plan, w, viols, states)
        stats = collections.Counter(w.stats)
        digest = w.digest()
        trace = w.trace
        sim_us = w.clock.covered_us
    if plan["sub"] == "history":
        sample = {"target": plan["target"], "uri": plan["uri"], "ops": "".join({"write": "w", "flush": "f", "close": "c", "exit": "X", "raise_exit": "R", "fault_open": "!"}[o["op"]] for o in plan["ops"]), "count": plan["count"]}
    else:
        sample = {"archive": plan["kind"], "ops": [o["op"] + (":%d" % o["dt_us"] if "dt_us" in o else "") for o in plan["ops"]]}
    return {"violations": viols, "digest": digest, "stats": stats, "states": states, "evals": 1, "sim_us": sim_us, "trace": trace,
            "sample": sample if len(plan["ops"]) > 3 else None}  # fmt: skip


# -- minimisation / known findings --------------------------------------------------------------------
def fix_plan(plan):
    p = dict(plan)
    if p["sub"] == "history":
        ops = list(p["ops"])
        if not ops or ops[-1]["op"] not in ("close", "exit", "raise_exit"):
            ops.append({"op": "exit" if p.get("with") else "close"})
        p["ops"] = ops
    else:
        ops = list(p["ops"])
        if not ops or ops[-1]["op"] != "close":
            ops.append({"op": "close"})
        p["ops"] = ops
    return p


def shrink_candidates(plan):
    import copy

    if plan["sub"] == "history":
        if plan.get("buffer_size") != 8192:
            c = copy.deepcopy(plan)
            c["buffer_size"] = 8192
            yield c
        for i, o in enumerate(plan["ops"]):
            if o["op"] == "write" and o.get("desc", "D0") != "D0":
                c = copy.deepcopy(plan)
                c["ops"][i]["desc"] = "D0"
                yield c
    else:
        for i, o in enumerate(plan["ops"]):
            if o["op"] == "write" and o.get("skew_us"):
                c = copy.deepcopy(plan)
                del c["ops"][i]["skew_us"]
                yield c
            if o["op"] == "advance" and o["dt_us"] not in (0, 3600 * 1000000):
                for simple in (0, 3600 * 1000000):
                    c = copy.deepcopy(plan)
                    c["ops"][i]["dt_us"] = simple
                    yield c


def _stream_no_header(plan, viol):
    """Known finding: a stream-family writer closed explicitly with no records and no flush /
    with-exit before the close leaves a file without the header frame."""
    info = viol.get("info") or {}
    kind = info.get("kind", "")
    if not (kind.startswith("stream") or kind in ("split-stream", "split-gz")):
        return False
    if info.get("records_in_file") != 0:
        return False
    err = info.get("err", "")
    if "not a RecordStream" not in err and "Unknown file format" not in err:
        return False
    hist = info.get("history", "")
    first_close = next((i for i, ch in enumerate(hist) if ch in "cXR"), None)
    if first_close is None or hist[first_close] != "c":
        return False  # closed by leaving a with-block (normally or by an exception): must be valid
    before = hist[:first_close]
    if kind.startswith("split"):
        # the offending part is the one that was current at the first close: it must not have seen a record
        # or a flush since the split writer opened it (at start, or right after the limit-th write of the
        # previous part)
        limit = int(info.get("limit") or 0)
        n_w = before.count("w")
        if limit <= 0 or n_w % limit != 0:
            return False
        if n_w:
            idx = [i for i, ch in enumerate(before) if ch == "w"][-1]
            since = before[idx + 1 :]
        else:
            since = before
        return "f" not in since
    # plain stream target: no flush and no write anywhere before the first close
    return "f" not in before and "w" not in before


KNOWN = {"stream-close-without-flush-no-header": _stream_no_header}


def mutate(plan, rng):
    from ..driver import mutate_ops

    p = mutate_ops(plan, rng, fix_plan)
    if p["sub"] == "history" and rng.random() < 0.3:
        p["count"] = rng.choice([1, 2, 3, 4, 5, 7])
        p["sl"] = rng.choice([1, 2, 3])
    return p
