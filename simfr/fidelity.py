"""Fidelity self-tests of the stubs and oracles.

(a) SimFS versus the real file system: seeded sequences of exactly the operations the library uses
    are executed against SimFS (faults off) and against a real scratch directory and must agree on
    results, exception classes and final content.
(b) The independent frame walker versus hand-built golden frames (struct + msgpack only).
(c) Oracle bite tests: doctored observations must be flagged by the scenario oracles.
"""

import io
import os
import random
import shutil
import struct
import tempfile

import msgpack

from . import refcodec
from .world import World


def _ops(rng, n):
    names = ["a.bin", "b.txt", "d/c.bin", "d/e/f.bin", "missing.bin", "d"]
    out = []
    for _ in range(n):
        k = rng.choice(["write", "write", "read", "readinto", "peek", "exists", "rename", "makedirs", "open-missing", "append-read", "text", "double-close", "seek-read"])
        out.append((k, rng.choice(names), rng.choice(names), bytes(rng.getrandbits(8) for _ in range(rng.randrange(0, 40))), rng.choice([-1, 0, 1, 16, 8192])))
    return out


def _apply(root, ops, opener, osmod):
    """Run ops relative to root with the given open() and os module; return observable outcomes."""
    res = []
    for k, a, b, data, buf in ops:
        pa, pb = root + "/" + a, root + "/" + b
        try:
            if k == "write":
                if buf == 1:
                    buf = -1
                with opener(pa, "wb", buf if buf != 0 else 0) as f:
                    f.write(data)
                    f.write(data[:3])
                res.append(("write", a, "ok"))
            elif k == "read":
                with opener(pa, "rb") as f:
                    res.append(("read", a, f.read()))
            elif k == "readinto":
                with opener(pa, "rb", 0) as f:
                    bb = bytearray(7)
                    n = f.readinto(bb)
                    res.append(("readinto", a, n, bytes(bb[: n or 0])))
            elif k == "peek":
                with opener(pa, "rb") as f:
                    p = f.peek(19)
                    first = f.read(4)
                    res.append(("peek", a, p[:4] == first[:4] or len(p) == 0, first))
            elif k == "exists":
                res.append(("exists", a, osmod.path.exists(pa)))
            elif k == "rename":
                # the library only ever renames a file it has just seen to exist (rotate_existing_file);
                # which of two simultaneous errors the kernel reports first is not modelled
                if not osmod.path.isfile(pa):
                    res.append(("rename-skipped", a, osmod.path.exists(pa)))
                    continue
                osmod.rename(pa, pb)
                res.append(("rename", a, b, "ok"))
            elif k == "makedirs":
                osmod.makedirs(pa)
                res.append(("makedirs", a, "ok"))
            elif k == "open-missing":
                opener(root + "/nope/x.bin", "wb").close()
                res.append(("open-missing", "ok"))
            elif k == "append-read":
                with opener(pa, "rb") as f:
                    f.read(2)
                    res.append(("tell", a, f.tell(), f.read(3)))
            elif k == "text":
                with opener(pa, "w", -1, None, None, "") as f:
                    f.write("line1\r\nline2\n")
                with opener(pa, "r", -1, None, None, "") as f:
                    res.append(("text", a, f.read(), f.seekable()))
            elif k == "double-close":
                f = opener(pa, "wb")
                f.write(data)
                f.close()
                f.close()
                res.append(("double-close", a, "ok"))
            elif k == "seek-read":
                with opener(pa, "rb") as f:
                    f.seek(1)
                    x = f.read(2)
                    f.seek(0)
                    res.append(("seek", a, x, f.read(1)))
        except Exception as e:  # noqa: BLE001
            res.append((k, a, b if k == "rename" else "", type(e).__name__))
    return res


def _tree(root, osmod, opener, listdir):
    out = {}

    def walk(d, rel):
        for n in sorted(listdir(d)):
            p = d + "/" + n
            if osmod.path.isdir(p):
                out[rel + n + "/"] = None
                walk(p, rel + n + "/")
            else:
                with opener(p, "rb") as f:
                    out[rel + n] = f.read()

    walk(root, "")
    return out


def simfs_vs_real(n_seq=300, seed=7):
    ok = True
    for i in range(n_seq):
        rng = random.Random(seed * 1000003 + i)
        ops = _ops(rng, rng.randrange(3, 25))
        real_root = tempfile.mkdtemp(prefix="simfr-fid-", dir="/dev/shm" if os.path.isdir("/dev/shm") else None)
        try:
            import builtins

            real = _apply(real_root, ops, builtins.open, os)
            real_tree = _tree(real_root, os, builtins.open, os.listdir)
        finally:
            shutil.rmtree(real_root, ignore_errors=True)
        with World() as w:
            from . import world as wm

            w.fs.makedirs("/simfs/root", exist_ok=True)
            import builtins

            sim = _apply("/simfs/root", ops, builtins.open, wm._OS_PROXY)
            sim_tree = _tree("/simfs/root", wm._OS_PROXY, builtins.open, w.fs.listdir)
        if real != sim or real_tree != sim_tree:
            ok = False
            j = next((k for k in range(min(len(real), len(sim))) if real[k] != sim[k]), None)
            print("SELFTEST-FAIL fidelity simfs-vs-real sequence %d: first difference at op %s: real %r sim %r; trees equal: %s" % (i, j, real[j] if j is not None else None, sim[j] if j is not None else None, real_tree == sim_tree))
            break
    print("selftest fidelity: SimFS vs real file system on %d seeded operation sequences: %s" % (n_seq, "ok" if ok else "FAILED"))
    return ok


def walker_vs_golden():
    def frame(body):
        return struct.pack(">I", len(body)) + body

    def ext(sub, value):
        return msgpack.ExtType(0x0E, msgpack.packb((sub, value), use_bin_type=True))

    hdr = frame(msgpack.packb(b"RECORDSTREAM\n", use_bin_type=True))
    desc = frame(msgpack.packb(ext(0x02, ("t/a", (("string", "s"), ("varint", "n")))), use_bin_type=True))
    vint = ext(0x11, (False, b"\x05"))
    rec = frame(msgpack.packb(ext(0x01, (("t/a", 1234), ("x", vint, None, None, None, 1))), use_bin_type=True))
    inner = ext(0x01, (("n/c", 99), ("v", None, None, None, 1)))
    holder = frame(msgpack.packb(ext(0x01, (("n/h", 7), ("tag", inner, None, None, None, 1))), use_bin_type=True))
    grp = frame(msgpack.packb(ext(0x12, ("g", ((("m/a", 1), ("a",)), (("m/b", 2), ("b", 3))))), use_bin_type=True))
    data = hdr + desc + rec + holder + grp
    frames, stop, reason = refcodec.walk(data)
    ok = [f.kind for f in frames] == ["HEADER", "DESC", "REC", "REC", "GROUPED"] and reason == "end" and stop == len(data)
    ok &= frames[1].info == ("t/a", (("string", "s"), ("varint", "n")))
    ok &= frames[2].info["ident"] == ("t/a", 1234) and frames[2].info["nested"] == []
    ok &= frames[3].info["nested"] == [("n/c", 99)]
    ok &= frames[4].info["members"] == [("m/a", 1), ("m/b", 2)]
    # truncations
    for k in range(len(data)):
        fr, st, rs = refcodec.walk(data[:k])
        spans = refcodec.frame_spans(data[:k])
        if [f.end for f in fr] != [e for _, e in spans] or (rs == "end") != (k in (0, len(hdr), len(hdr + desc), len(hdr + desc + rec), len(hdr + desc + rec + holder))):
            ok = False
            print("SELFTEST-FAIL fidelity walker: cut %d gives %s/%s" % (k, [f.kind for f in fr], rs))
            break
    print("selftest fidelity: frame walker vs hand-built golden frames (all %d cuts): %s" % (len(data), "ok" if ok else "FAILED"))
    return ok


def oracle_bite():
    """Feed doctored observations to the oracles; every one of them must be flagged."""
    ok = True
    # C04 judge
    from .scenarios import c04_crash as c04

    def fr(b):
        return struct.pack(">I", len(b)) + b

    hdr = fr(msgpack.packb(b"RECORDSTREAM\n", use_bin_type=True))
    d = fr(msgpack.packb(msgpack.ExtType(0x0E, msgpack.packb((0x02, ("t/a", (("string", "s"),))), use_bin_type=True)), use_bin_type=True))
    r0 = fr(msgpack.packb(msgpack.ExtType(0x0E, msgpack.packb((0x01, (("t/a", 1), ("a", None, None, None, 1))), use_bin_type=True)), use_bin_type=True))
    r1 = fr(msgpack.packb(msgpack.ExtType(0x0E, msgpack.packb((0x01, (("t/a", 1), ("b", None, None, None, 1))), use_bin_type=True)), use_bin_type=True))
    intended = [(hdr, 0), (d, 0), (r0, 0), (r1, 1)]
    attempted = ["rec-a", "rec-b"]
    plain = hdr + d + r0 + r1
    cases = [
        ("record dropped", ["rec-a"], "end", plain, "C04.prefix"),
        ("record altered", ["rec-a", "rec-X"], "end", plain, "C04.prefix"),
        ("record reordered", ["rec-b", "rec-a"], "end", plain, "C04.prefix"),
        ("record duplicated", ["rec-a", "rec-b", "rec-b"], "end", plain, "C04.beyond-damage"),
        ("raises on a clean boundary", ["rec-a", "rec-b"], "ValueError", plain, "C04.boundary-raises"),
        ("yields beyond a cut", ["rec-a", "rec-b"], "end", plain[: len(plain) - 3], "C04.beyond-damage"),
    ]
    for name, got, outcome, p, want in cases:
        vs, _, _ = c04.judge("cuts", attempted, intended, intended, p, got, outcome, "fail-stop")
        if want not in [v["invariant"] for v in vs]:
            ok = False
            print("SELFTEST-FAIL oracle bite C04: '%s' not flagged as %s (got %s)" % (name, want, [v["invariant"] for v in vs]))
    vs, _, _ = c04.judge("cuts", attempted, intended, intended, plain, ["rec-a", "rec-b"], "end", "fail-stop")
    if vs:
        ok = False
        print("SELFTEST-FAIL oracle bite C04: the correct observation is flagged: %s" % vs)
    # C16 comparison of models
    from .scenarios import c16_rdump as c16

    e = [{"name": "t/a", "fields": [("s", "string", "x")], "source": None, "cls": None, "expanded": False}, {"name": "t/a", "fields": [("s", "string", "y")], "source": "S", "cls": None, "expanded": False}]
    bad = {
        "dropped": e[:1], "duplicated": e + e[1:], "reordered": e[::-1],
        "altered": [e[0], dict(e[1], fields=[("s", "string", "z")])], "metadata": [e[0], dict(e[1], source=None)],
    }  # fmt: skip
    with World():
        for name, got in bad.items():
            if c16.cmp_models(got, e, "x") is None:
                ok = False
                print("SELFTEST-FAIL oracle bite C16: '%s' not flagged" % name)
        if c16.cmp_models(e, e, "x") is not None:
            ok = False
            print("SELFTEST-FAIL oracle bite C16: identical lists flagged")
    # C18 prefix/relaxed comparison
    print("selftest fidelity: oracle bite tests (C04 judge, C16 model comparison): %s" % ("ok" if ok else "FAILED"))
    return ok


def run():
    a = simfs_vs_real()
    b = walker_vs_golden()
    c = oracle_bite()
    return a and b and c
