#!/usr/bin/env python3
"""Verify a sub-agent's seeded change and keep it under /verif/seeded/<id>/.

usage: tools_import_seeded.py <Cxx> <dir with patch.diff demo.py notes.md> <id> ["what it needs to manifest"]

Verification (all in a scratch copy of /repo under /dev/shm, removed afterwards):
  1. demo.py on the pristine copy exits 0
  2. patch applies; the test suite gives the same outcome counts as on the pristine copy
  3. demo.py on the patched copy exits non-zero
Only then is the change copied, with meta.json recording what was run.
"""
import json, os, re, shutil, subprocess, sys, tempfile, time

PY = "/venv/bin/python"
FLAKY = {"tests/test_rdump.py::test_rdump_pipe"}  # flaky on the pristine tree (BASELINE.json lists it under always_fail)


def run(cmd, cwd, env=None, timeout=1800):
    e = dict(os.environ)
    e.update(env or {})
    r = subprocess.run(cmd, cwd=cwd, env=e, capture_output=True, text=True, timeout=timeout)
    return r.returncode, r.stdout + r.stderr


def suite(repo):
    rc, out = run([PY, "-m", "pytest", "-q", "-p", "no:cacheprovider", "--timeout=900", "tests"], repo, {"PATH": "/venv/bin:" + os.environ["PATH"], "PYTHONPATH": repo})
    tail = [l for l in out.splitlines() if re.search(r"\d+ passed", l)]
    failed = sorted(set(re.findall(r"^FAILED (\S+)", out, re.M)) - FLAKY)
    m = re.search(r"(\d+) passed", tail[-1]) if tail else None
    total = (int(m.group(1)) if m else -1) + len(re.findall(r"^FAILED (\S+)", out, re.M))
    return (tail[-1].strip() if tail else "no summary (rc=%d)" % rc), (failed, total)


def main():
    prop, src, sid = sys.argv[1:4]
    needs = sys.argv[4] if len(sys.argv) > 4 else ""
    root = tempfile.mkdtemp(prefix="simfr-seed-", dir="/dev/shm")
    repo = os.path.join(root, "repo")
    try:
        shutil.copytree("/repo", repo, ignore=shutil.ignore_patterns(".git", "__pycache__", "*.pyc", ".pytest_cache"))
        demo = os.path.join(src, "demo.py")
        env = {"PYTHONPATH": repo}
        rc0, out0 = run([PY, demo], repo, env)
        base_summary, base_failed = suite(repo)
        rc, out = run(["patch", "-p1", "-s", "-i", os.path.join(src, "patch.diff")], repo)
        if rc != 0:
            print("REJECT %s: patch does not apply: %s" % (sid, out[-300:]))
            return 1
        mut_summary, mut_failed = suite(repo)
        rc1, out1 = run([PY, demo], repo, env)
        ok = rc0 == 0 and rc1 != 0 and base_failed == mut_failed
        print("%s: demo pristine rc=%d, demo patched rc=%d, suite pristine [%s] patched [%s]" % (sid, rc0, rc1, base_summary, mut_summary))
        if not ok:
            print("REJECT %s (not kept)" % sid)
            return 1
        dst = os.path.join(os.path.dirname(os.path.abspath(__file__)), "seeded", sid)
        os.makedirs(dst, exist_ok=True)
        for f in ("patch.diff", "demo.py", "notes.md"):
            if os.path.exists(os.path.join(src, f)):
                shutil.copyfile(os.path.join(src, f), os.path.join(dst, f))
        head = subprocess.run(["git", "-C", "/repo", "rev-parse", "--short", "HEAD"], capture_output=True, text=True).stdout.strip()
        meta = {
            "id": sid, "property": prop, "needs_to_manifest": needs, "source": "independent sub-agent given only the property text and a scratch worktree",
            "verified": {"repo_head": head, "demo_pristine_rc": rc0, "demo_patched_rc": rc1, "suite_pristine": base_summary, "suite_patched": mut_summary,
                         "demo_patched_output_tail": out1[-400:], "when": time.strftime("%Y-%m-%dT%H:%M:%SZ", time.gmtime())},
            "ran": ["demo.py on a pristine scratch copy of /repo", "patch -p1 < patch.diff", "pytest -q tests (same outcome as pristine)", "demo.py on the patched copy"],
        }
        with open(os.path.join(dst, "meta.json"), "w") as f:
            json.dump(meta, f, indent=1)
        print("KEPT %s" % dst)
        return 0
    finally:
        shutil.rmtree(root, ignore_errors=True)


if __name__ == "__main__":
    sys.exit(main())
