import io, os, sys, time, warnings
warnings.simplefilter("ignore")
from flow.record import RecordDescriptor, RecordReader, RecordWriter, RecordStreamWriter, RecordStreamReader
from flow.record.base import RecordAdapterNotFound

D = RecordDescriptor("test/a", [("string","s"),("varint","n")])
# 1. short peek via a raw object delivering chunks
class ChunkRaw(io.RawIOBase):
    def __init__(self, data, sizes):
        self.data=data; self.pos=0; self.sizes=list(sizes)
    def readable(self): return True
    def readinto(self, b):
        if self.pos>=len(self.data): return 0
        n = self.sizes.pop(0) if self.sizes else len(b)
        n=min(n,len(b),len(self.data)-self.pos)
        b[:n]=self.data[self.pos:self.pos+n]; self.pos+=n; return n
buf=io.BytesIO(); w=RecordStreamWriter(buf); w.write(D("x",1)); w.write(D("y",2)); data=buf.getvalue()
print(len(data), data[:30])
for sizes in ([], [4], [19], [18], [1]*100):
    try:
        r = RecordReader(fileobj=ChunkRaw(data, sizes))
        print(sizes[:3], "->", [ (x.s,x.n) for x in r])
    except Exception as e:
        print(sizes[:3], "EXC", type(e).__name__, e)
# BufferedReader over chunk raw
for sizes in ([4], [1]*100):
    try:
        r = RecordReader(fileobj=io.BufferedReader(ChunkRaw(data, sizes)))
        print("buffered", sizes[:3], "->", [ (x.s,x.n) for x in r])
    except Exception as e:
        print("buffered", sizes[:3], "EXC", type(e).__name__, e)
