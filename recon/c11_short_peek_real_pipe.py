import io, os, sys, time, warnings, threading
warnings.simplefilter("ignore")
from flow.record import RecordDescriptor, RecordReader, RecordStreamWriter
D = RecordDescriptor("test/a", [("string","s"),("varint","n")])
r,w = os.pipe()
wf = os.fdopen(w,'wb',buffering=0)   # unbuffered producer, like python -u
def prod():
    sw = RecordStreamWriter(wf)
    sw.write(D("x",1)); sw.write(D("y",2)); sw.close()
# step the producer: first raw write only (4 bytes), then consumer peeks
class Slow:
    def __init__(s,f): s.f=f; s.n=0
    def write(s,b):
        s.n+=1
        r=s.f.write(b)
        if s.n==1: time.sleep(0.3)
        return r
    def close(s): s.f.close()
    def flush(s): pass
wf2=Slow(wf)
def prod2():
    sw = RecordStreamWriter(wf2); sw.write(D("x",1)); sw.write(D("y",2)); sw.close()
t=threading.Thread(target=prod2); t.start()
time.sleep(0.1)
try:
    rd = RecordReader(fileobj=os.fdopen(r,'rb'))
    print([ (x.s,x.n) for x in rd])
except Exception as e:
    print("EXC", type(e).__name__, e)
t.join()
