import io, os, sys, warnings, shutil, gzip, bz2, lz4.frame, zstandard, random
warnings.simplefilter("ignore")
from flow.record import RecordDescriptor, RecordReader, RecordWriter
D = RecordDescriptor("test/a", [("string","s"),("varint","n")])
root="/dev/shm/flowrecord-recon/c11"; shutil.rmtree(root,ignore_errors=True); os.makedirs(root)
recs=[D("v%d"%i,i) for i in range(4)]
dec={"":lambda b:b,".gz":gzip.decompress,".bz2":bz2.decompress,".lz4":lz4.frame.decompress,".zst":lambda b: zstandard.ZstdDecompressor().decompressobj().decompress(b)}
class ChunkRaw(io.RawIOBase):
    def __init__(s,data,rng): s.d=data; s.p=0; s.rng=rng
    def readable(s): return True
    def readinto(s,b):
        if s.p>=len(s.d): return 0
        n=min(len(b), len(s.d)-s.p, s.rng.choice([1,2,3,5,19,64,4096]) if s.rng else len(b))
        b[:n]=s.d[s.p:s.p+n]; s.p+=n; return n
for cont,pre in (("stream",""),("avro","avro://")):
  for ext in dec:
    base="x."+("records" if cont=="stream" else "avro")+ext
    p=os.path.join(root,base)
    with RecordWriter(pre+p) as w:
        for r in recs: w.write(r)
    raw=open(p,"rb").read()
    plain=dec[ext](raw)
    neutral=os.path.join(root,"neutral_%s%s.bin"%(cont,ext.replace(".","_"))); shutil.copy(p,neutral)
    out=[]
    for label,mk in (("ext",lambda: RecordReader(pre+p)),("neutral",lambda: RecordReader((pre or "")+neutral)),
                     ("bytesio",lambda: RecordReader(fileobj=io.BytesIO(raw))),("realfile",lambda: RecordReader(fileobj=open(p,"rb"))),
                     ("rawfile",lambda: RecordReader(fileobj=open(p,"rb",buffering=0))),
                     ("chunk",lambda: RecordReader(fileobj=ChunkRaw(raw,random.Random(1)))),
                     ("chunk19+",lambda: RecordReader(fileobj=ChunkRaw(raw,None)))):
        try: out.append((label,[r.n for r in mk()]==[0,1,2,3]))
        except Exception as e: out.append((label,type(e).__name__))
    print(cont,ext or "none",len(raw),out)
for g in (b"", b"hello", b"<test/a s='x'>", b"\x1f\x8b garbage", b"Obj\x01garbage", b"BZh9xx", os.urandom(64)):
    for how in ("fileobj","path"):
        try:
            if how=="fileobj": n=len(list(RecordReader(fileobj=io.BytesIO(g))))
            else:
                pp=os.path.join(root,"g.bin"); open(pp,"wb").write(g); n=len(list(RecordReader(pp)))
            print(g[:10],how,"-> records",n)
        except Exception as e: print(g[:10],how,type(e).__name__,str(e)[:50])
