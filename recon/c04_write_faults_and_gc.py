import io, gc, errno, warnings, gzip
warnings.simplefilter("ignore")
from flow.record import RecordDescriptor, RecordStreamWriter, RecordStreamReader
D = RecordDescriptor("test/a", [("string","s"),("varint","n")])
class Raw(io.RawIOBase):
    def __init__(s, fail_at=None, torn=0): s.data=bytearray(); s.calls=0; s.fail_at=fail_at; s.torn=torn; s.dead=False
    def writable(s): return True
    def write(s,b):
        s.calls+=1
        if s.dead: return len(b)
        if s.calls==s.fail_at:
            s.data+=bytes(b[:s.torn]); raise OSError(errno.ENOSPC,"No space")
        s.data+=bytes(b); return len(b)
# 1. unbuffered: which call fails -> what's on disk
for fa in range(1,8):
    raw=Raw(fail_at=fa,torn=2); w=RecordStreamWriter(raw); n=0
    try:
        for i in range(3): w.write(D("x"*i,i)); n+=1
    except OSError as e: pass
    raw.dead=True
    got=[]; exc=None
    try:
        for r in RecordStreamReader(io.BytesIO(bytes(raw.data))): got.append(r.n)
    except Exception as e: exc=type(e).__name__
    print("fail_at",fa,"acked",n,"disk",len(raw.data),"read",got,exc)
    w.fp=None
# 2. GC late write: abandoned buffered writer flushes at GC time
raw=Raw(); bw=io.BufferedWriter(raw, buffer_size=65536); w=RecordStreamWriter(bw); w.write(D("a",1))
print("before gc", len(raw.data))
del w, bw; gc.collect(); print("after gc", len(raw.data))
