import io, errno, warnings, struct, msgpack, random, collections, hashlib, time
warnings.simplefilter("ignore")
from flow.record import RecordDescriptor, RecordStreamWriter, RecordStreamReader
D = RecordDescriptor("test/a", [("string","s"),("varint","n"),("bytes","b")])
E = RecordDescriptor("test/b", [("varint","n"),("string[]","l")])
class Raw(io.RawIOBase):
    def __init__(s, fail_at, torn): s.data=bytearray(); s.calls=0; s.fail_at=fail_at; s.torn=torn; s.acked=[]
    def writable(s): return True
    def write(s,b):
        s.calls+=1
        if s.calls==s.fail_at:
            s.data+=bytes(b[:s.torn]); raise OSError(errno.EIO,"io")
        s.data+=bytes(b); return len(b)
def key(r): return (r._desc.name, tuple(repr(getattr(r,f)) for f in r._desc.fields))
out=collections.Counter(); t0=time.time(); bad=0
for seed in range(3000):
    rng=random.Random(seed)
    recs=[(D("x"*rng.randrange(40),i,bytes(rng.randrange(256) for _ in range(rng.randrange(8)))) if rng.random()<.5 else E(i,["e"]*rng.randrange(4))) for i in range(rng.randrange(1,8))]
    raw=Raw(rng.randrange(1,2*len(recs)+8), rng.choice([0,0,1,2,3,5])); w=RecordStreamWriter(raw)
    acked=[]
    for r in recs:
        try: w.write(r); acked.append(key(r))
        except OSError: pass
    w.fp=None
    got=[];exc=None
    try:
        for r in RecordStreamReader(io.BytesIO(bytes(raw.data))): got.append(key(r))
    except Exception as e: exc=type(e).__name__
    # rule 2: got must be an in-order subsequence of acked
    it=iter(acked); ok=all(any(g==a for a in it) for g in got)
    if not ok: bad+=1; print("ALTERED/UNWRITTEN",seed,got,acked)
    out[(exc, len(got)==len(acked))]+=1
print(out, "bad",bad, time.time()-t0)
# 32-bit collision search
t0=time.time(); seen={}
i=0
while True:
    fields=(("string","f%d"%i),)
    h=RecordDescriptor.calc_descriptor_hash("c/x",fields)
    if h in seen: print("collision",seen[h],fields,h,i,time.time()-t0); break
    seen[h]=fields; i+=1
