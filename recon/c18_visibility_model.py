import io, os, sys, warnings, types, sqlite3, shutil, random, datetime
warnings.simplefilter("ignore")
from flow.record import RecordDescriptor, RecordReader
import flow.record.adapter.sqlite as SQ
UTC=datetime.timezone.utc
names=["t/a","t/b","select","x_y"]
ftypes=["string","varint","float","bytes","datetime","path","net.ipaddress","uri","boolean","uint16"]
fnames=["a","b","c","order","group","d1","e_"]
def gen_desc(rng, name=None):
    name=name or rng.choice(names)
    k=rng.randrange(1,4)
    fs=rng.sample(fnames,k)
    return RecordDescriptor(name,[(FT[f],f) for f in fs])
def val(rng,t):
    if rng.random()<0.15: return None
    if t=="string": return rng.choice(["","x","héllo","a'b\"c","line\nbreak","NULL"])
    if t=="varint": return rng.choice([0,1,-1,2**63-1,-2**63,12345])
    if t=="float": return rng.choice([0.0,-1.5,1e300,3.14])
    if t=="bytes": return rng.choice([b"",b"\x00\x01",b"abc"])
    if t=="datetime": return rng.choice([datetime.datetime(2020,1,2,3,4,5,678,tzinfo=UTC),datetime.datetime(1969,12,31,23,59,59,tzinfo=datetime.timezone(datetime.timedelta(hours=2)))])
    if t=="path": return "/tmp/x"
    if t=="net.ipaddress": return "1.2.3.4"
    if t=="uri": return "http://x/y"
    if t=="boolean": return rng.choice([True,False])
    if t=="uint16": return rng.choice([0,65535])
FT=dict(zip(fnames,["string","varint","float","bytes","datetime","path","net.ipaddress"]))
d="/dev/shm/flowrecord-recon/sq2"
bad=0
for seed in range(1500):
    rng=random.Random(seed)
    shutil.rmtree(d,ignore_errors=True); os.makedirs(d); p=os.path.join(d,"t.db")
    bs=rng.choice([1,2,3,5,1000])
    descs=[gen_desc(rng) for _ in range(rng.randrange(1,4))]
    w=SQ.SqliteWriter(p,batch_size=bs); obs=sqlite3.connect(p,timeout=0)
    seen=[]; count=0; committed=0; written=[]
    try:
        for i in range(rng.randrange(0,12)):
            de=rng.choice(descs)
            rec=de(*[val(rng,t) for t,_ in de.get_field_tuples()])
            if de not in seen: seen.append(de); committed=len(written)
            w.write(rec); written.append(rec); count+=1
            if count%bs==0: committed=len(written)
            tot=0
            for (n,) in obs.execute("select name from sqlite_master where type='table'").fetchall():
                tot+=obs.execute(f'select count(*) from "{n}"').fetchall()[0][0]
            if tot!=committed: bad+=1; print("VIS",seed,i,tot,committed,bs)
        w.close()
        back=list(RecordReader("sqlite://"+p))
        if len(back)!=len(written): bad+=1; print("COUNT",seed,len(back),len(written))
    except Exception as e:
        bad+=1; print("EXC",seed,type(e).__name__,str(e)[:100], [ (x.name,x.get_field_tuples()) for x in descs])
    obs.close()
    if bad>8: break
print("bad",bad)
