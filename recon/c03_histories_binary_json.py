import io, os, sys, warnings, json, random, hashlib
warnings.simplefilter("ignore")
from flow.record import RecordDescriptor, RecordReader, RecordWriter, RecordStreamWriter, RecordStreamReader, GroupedRecord
from flow.record.adapter.jsonfile import JsonfileWriter, JsonfileReader
A1=RecordDescriptor("t/a",[("string","x")])
A2=RecordDescriptor("t/a",[("string","x"),("varint","y")])
A3=RecordDescriptor("t/a",[("varint","x")])
B=RecordDescriptor("t/b",[("string","q")])
H=RecordDescriptor("t/h",[("record","child"),("record[]","children"),("string","s")])
def mk(rng):
    k=rng.randrange(7)
    if k==0: return A1("a1")
    if k==1: return A2("a2",2)
    if k==2: return A3(3)
    if k==3: return B("b")
    if k==4: return H(mk0(rng),[mk0(rng) for _ in range(rng.randrange(3))],"h")
    if k==5: return GroupedRecord("g/x",[mk0(rng),mk0(rng)])
    return H(None,[], "h0")
def mk0(rng):
    k=rng.randrange(4)
    return [A1("a1"),A2("a2",2),A3(3),B("b")][k]
def sig(r):
    if isinstance(r,GroupedRecord):
        return ("G",r.name,tuple(sig(x) for x in r.records))
    if r is None: return None
    vals=[]
    for f in r._desc.get_field_tuples():
        v=getattr(r,f[1])
        if f[0]=="record": v=sig(v)
        elif f[0]=="record[]": v=tuple(sig(x) for x in v)
        vals.append(v)
    return (r._desc.name, r._desc.get_field_tuples(), tuple(vals))
bad=0
for seed in range(300):
    rng=random.Random(seed)
    recs=[mk(rng) for _ in range(rng.randrange(1,9))]
    buf=io.BytesIO(); w=RecordStreamWriter(buf)
    for r in recs: w.write(r)
    try:
        got=[sig(r) for r in RecordStreamReader(io.BytesIO(buf.getvalue()))]
        if got!=[sig(r) for r in recs]: bad+=1; print("BIN mismatch",seed)
    except Exception as e: bad+=1; print("BIN exc",seed,type(e).__name__,e)
    # json (no grouped)
    p="/dev/shm/flowrecord-recon/c3.json"
    w=JsonfileWriter(p)
    for r in recs: w.write(r)
    w.close()
    try:
        got=[sig(r) for r in JsonfileReader(p)]
        want=[sig(r) if not isinstance(r,GroupedRecord) else ("flat",r._desc.name,r._desc.get_field_tuples()) for r in recs]
        got2=[g if w[0]!="flat" else ("flat",g[0],g[1]) for g,w in zip(got,want)]
        if got2!=want: bad+=1; print("JSON mismatch",seed, [ (a,b) for a,b in zip(got2,want) if a!=b][:1])
    except Exception as e: bad+=1; print("JSON exc",seed,type(e).__name__,str(e)[:200])
    if bad>6: break
print("bad",bad)
