import builtins, io, os, sys, warnings, types, errno, bz2, posixpath, datetime as _dtm, random, gc
warnings.simplefilter("ignore")
import flow.record.base as base, flow.record.stream as S
from flow.record import RecordDescriptor, RecordReader, RecordWriter, PathTemplateWriter, RecordArchiver
# --- minimal SimFS with dirs and event log
FS={}; DIRS={"/simfs"}; EV=[]
class SimRaw(io.RawIOBase):
    def __init__(s,path,mode):
        s.path=path; s.mode=mode; s.pos=0
        if 'w' in mode: FS[path]=bytearray(); EV.append(("create",path))
    def readable(s): return 'r' in s.mode
    def writable(s): return 'w' in s.mode
    def seekable(s): return True
    def seek(s,off,wh=0): s.pos= off if wh==0 else (s.pos+off if wh==1 else len(FS[s.path])+off); return s.pos
    def tell(s): return s.pos
    def readinto(s,b):
        d=FS[s.path][s.pos:s.pos+len(b)]; b[:len(d)]=d; s.pos+=len(d); return len(d)
    def write(s,b): b=bytes(b); FS[s.path][s.pos:s.pos+len(b)]=b; s.pos+=len(b); return len(b)
real_open=builtins.open
def sim_open(file, mode="r", buffering=-1, encoding=None, errors=None, newline=None, closefd=True, opener=None):
    if isinstance(file,(str,os.PathLike)) and str(file).startswith("/simfs/"):
        path=str(file)
        if 'r' in mode and path not in FS: raise FileNotFoundError(errno.ENOENT,"No such file",path)
        if 'w' in mode and posixpath.dirname(path) not in DIRS: raise FileNotFoundError(errno.ENOENT,"No such dir",path)
        raw=SimRaw(path,mode)
        buf=io.BufferedWriter(raw) if 'w' in mode else io.BufferedReader(raw)
        return buf if 'b' in mode else io.TextIOWrapper(buf,encoding=encoding,errors=errors,newline=newline)
    return real_open(file,mode,buffering,encoding,errors,newline,closefd,opener)
builtins.open=sim_open; io.open=sim_open; bz2._builtin_open=sim_open
class OsPath:
    def __getattr__(s,k): return getattr(posixpath,k)
    def exists(s,p): return (p in FS or p in DIRS) if str(p).startswith("/simfs") else posixpath.exists(p)
    def realpath(s,p): return p if str(p).startswith("/simfs") else posixpath.realpath(p)
class OsProxy:
    path=OsPath()
    def __getattr__(s,k): return getattr(os,k)
    def rename(s,a,b):
        if b in FS: EV.append(("overwrite",a,b))
        EV.append(("rename",a,b)); FS[b]=FS.pop(a)
    def makedirs(s,p,exist_ok=False):
        while p not in DIRS and p!="/": DIRS.add(p); p=posixpath.dirname(p)
S.os=OsProxy(); base.os=OsProxy()
# --- clock
class Clock: now=_dtm.datetime(2024,1,1,10,0,0,tzinfo=_dtm.timezone.utc)
class _DT(_dtm.datetime):
    @classmethod
    def now(cls,tz=None): return Clock.now
px=types.ModuleType("dtp"); px.datetime=_DT; px.timezone=_dtm.timezone; S.datetime=px
base._utcnow=lambda: Clock.now; base._generate_record_class.cache_clear()
D=RecordDescriptor("t/a",[("varint","n")])
gc.disable()
rng=random.Random(5); w=RecordArchiver("/simfs/arch", name="x"); written=[]
for i in range(30):
    Clock.now += _dtm.timedelta(seconds=rng.choice([0,0,0.4,1,3600,-3600,86400]))
    r=D(i); w.write(r); written.append(i)
w.close()
tot=[]
for p in sorted(FS): 
    ns=[r.n for r in RecordReader(p)]; tot+=ns; print(p,ns)
print("events overwrite:", [e for e in EV if e[0]=="overwrite"])
print("lost:", sorted(set(written)-set(tot)))
# --- stdin
sys.stdin=io.TextIOWrapper(io.BufferedReader(io.BytesIO(bytes(FS[sorted(FS)[0]]))))
print("stdin:", [r.n for r in RecordReader("-")])
