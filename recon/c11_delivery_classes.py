# recon: under seeded delivery schedules, is "short first read" the ONLY way detection/reading fails on the pinned tree?
import io, os, sys, time, warnings, random, collections, shutil
warnings.simplefilter("ignore")
from flow.record import RecordDescriptor, RecordReader, RecordWriter
D = RecordDescriptor("t/a", [("string", "s"), ("varint", "n")])
root = "/dev/shm/flowrecord-recon/c11d"; shutil.rmtree(root, ignore_errors=True); os.makedirs(root)
class Chunk(io.RawIOBase):
    def __init__(s, d, sizes): s.d = d; s.p = 0; s.sizes = list(sizes); s.i = 0
    def readable(s): return True
    def readinto(s, b):
        if s.p >= len(s.d): return 0
        want = s.sizes[s.i] if s.i < len(s.sizes) else len(b); s.i += 1
        n = min(len(b), len(s.d) - s.p, max(1, want)); b[:n] = s.d[s.p:s.p + n]; s.p += n; return n
blobs = {}; KEEP = []
for cont, pre, stem in (("stream", "", "x.records"), ("avro", "avro://", "x.avro")):
    for ext in ("", ".gz", ".bz2", ".lz4", ".zst"):
        p = os.path.join(root, stem + ext)
        with RecordWriter(pre + p) as w:
            for i in range(6): w.write(D("v%d" % i, i))
        blobs[(cont, ext or "none")] = open(p, "rb").read()
def attempt(data, sizes, how):
    got = []; stage = "construct"
    try:
        raw = Chunk(data, sizes)
        if how == "bare": rd = RecordReader(fileobj=raw)
        elif how == "buffered": rd = RecordReader(fileobj=io.BufferedReader(raw, buffer_size=64))
        else:
            # NB: keep the fake stdin wrapper alive for the whole read: dropping the TextIOWrapper finalises it,
            # which closes the BufferedReader underneath and makes later reads raise ValueError (harness artefact).
            old = sys.stdin; keep = sys.stdin = io.TextIOWrapper(io.BufferedReader(raw)); KEEP.append(keep)
            try: rd = RecordReader("-")
            finally: sys.stdin = old
        stage = "iterate"
        for r in rd: got.append(r.n)
        return ("ok" if got == list(range(6)) else "WRONG-RECORDS", None, stage)
    except Exception as e:
        return ("exc", type(e).__name__, stage if not got else "after-%d-records" % len(got))
out = collections.Counter(); t0 = time.time()
for seed in range(int(sys.argv[1]) if len(sys.argv) > 1 else 400):
    rng = random.Random(seed)
    key = rng.choice(sorted(blobs)); data = blobs[key]
    pol = rng.choice(["tiny-first", "one-byte", "random", "whole", "19-then-random"])
    if pol == "tiny-first": sizes = [rng.randrange(1, 19)] + [rng.choice([1, 5, 4096]) for _ in range(50)]
    elif pol == "one-byte": sizes = [1] * (len(data) + 5)
    elif pol == "random": sizes = [rng.choice([1, 2, 3, 4, 5, 18, 19, 20, 64, 4096]) for _ in range(200)]
    elif pol == "whole": sizes = []
    else: sizes = [19] + [rng.choice([1, 7, 4096]) for _ in range(200)]
    how = rng.choice(["bare", "buffered", "stdin"])
    del KEEP[:]
    res = attempt(data, sizes, how)
    cls = res[0]
    if res[0] == "exc":
        # counterfactual: same schedule, only the first chunk enlarged until detection works
        fixed_at = None
        for first in list(range((sizes[0] if sizes else 1) + 1, 64)) + [4096]:
            if attempt(data, [first] + sizes[1:], how)[0] == "ok": fixed_at = first; break
        cls = "short-first-read(%s@%s)" % (res[1], res[2]) if fixed_at else "OTHER-FAILURE(%s@%s)" % (res[1], res[2])
        if fixed_at: out[("need-first>=", key, fixed_at)] += 0  # placeholder for histogram
    out[(cls,)] += 1
    if cls.startswith("OTHER") or cls == "WRONG-RECORDS": print("!!", seed, key, pol, how, res)
print("%.1fs" % (time.time() - t0))
for k, v in sorted(out.items(), key=str):
    if v: print(k, v)
need = collections.defaultdict(set)
for k in out:
    if k[0] == "need-first>=": need[k[1]].add(k[2])
for k in sorted(need): print("minimal sufficient first chunk", k, sorted(need[k]))
shutil.rmtree(root)
