import builtins, io, os, sys, time, warnings, types, gzip, bz2, errno, datetime as _dtm
warnings.simplefilter("ignore")
import flow.record as fr, flow.record.base as base, flow.record.stream as S
from flow.record import RecordDescriptor, RecordReader, RecordWriter

# ---- SimFS probe: prefix-routed open ----
FS={}
class SimRaw(io.RawIOBase):
    def __init__(s,path,mode):
        s.path=path; s.mode=mode; s.pos=0
        if 'w' in mode: FS[path]=bytearray()
        s.log=[]
    def readable(s): return 'r' in s.mode
    def writable(s): return 'w' in s.mode
    def seekable(s): return True
    def seek(s,off,wh=0):
        s.pos = off if wh==0 else (s.pos+off if wh==1 else len(FS[s.path])+off); return s.pos
    def tell(s): return s.pos
    def readinto(s,b):
        d=FS[s.path][s.pos:s.pos+len(b)]; b[:len(d)]=d; s.pos+=len(d); return len(d)
    def write(s,b):
        b=bytes(b); FS[s.path][s.pos:s.pos+len(b)]=b; s.pos+=len(b); s.log.append(len(b)); return len(b)
real_open=builtins.open
def sim_open(file, mode="r", buffering=-1, encoding=None, errors=None, newline=None, closefd=True, opener=None):
    if isinstance(file,(str,os.PathLike)) and str(file).startswith("/simfs/"):
        path=str(file)
        if 'r' in mode and path not in FS: raise FileNotFoundError(errno.ENOENT, "No such file", path)
        raw=SimRaw(path, mode)
        if buffering==0: return raw
        buf = io.BufferedWriter(raw) if 'w' in mode else io.BufferedReader(raw)
        if 'b' in mode: return buf
        return io.TextIOWrapper(buf, encoding=encoding, errors=errors, newline=newline)
    return real_open(file, mode, buffering, encoding, errors, newline, closefd, opener)
builtins.open=sim_open; io.open=sim_open; bz2._builtin_open=sim_open
D = RecordDescriptor("test/a", [("string","s"),("varint","n")])
for ext in ("", ".gz", ".bz2", ".lz4", ".zst"):
    p="/simfs/x.records"+ext
    with RecordWriter(p) as w:
        for i in range(3): w.write(D("v%d"%i,i))
    print(ext, len(FS[p]), [r.n for r in RecordReader(p)])
for p in ("/simfs/x.json","/simfs/x.csv","/simfs/x.avro"):
    with RecordWriter(p) as w:
        for i in range(3): w.write(D("v%d"%i,i))
    print(p, len(FS[p]), [r.n for r in RecordReader(p)])
# ---- clock seam ----
class _DT(_dtm.datetime):
    NOW=_dtm.datetime(2030,1,1,tzinfo=_dtm.timezone.utc)
    @classmethod
    def now(cls,tz=None): return cls.NOW
proxy=types.ModuleType("datetime_proxy"); proxy.datetime=_DT; proxy.timezone=_dtm.timezone; proxy.timedelta=_dtm.timedelta
S.datetime=proxy
base._utcnow=lambda: _DT.NOW
base._generate_record_class.cache_clear()
D2 = RecordDescriptor("test/a", [("string","s"),("varint","n")])
print(D2("a",1)._generated, type(D2("a",1)._generated))
