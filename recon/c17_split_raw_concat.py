import os, shutil, warnings
warnings.simplefilter("ignore")
from flow.record import RecordDescriptor, RecordReader, RecordWriter
D=RecordDescriptor("t/a",[("varint","n")]); E=RecordDescriptor("t/b",[("string","s")])
root="/dev/shm/flowrecord-recon/cc"
for ext in ("", ".gz", ".bz2", ".lz4", ".zst"):
    shutil.rmtree(root,ignore_errors=True); os.makedirs(root)
    with RecordWriter(f"split://{root}/s.records{ext}?count=3") as w:
        for i in range(8): w.write(D(i) if i%2 else E(str(i)))
    parts=sorted(os.listdir(root)); blob=b"".join(open(os.path.join(root,p),"rb").read() for p in parts)
    open(os.path.join(root,"all.records"+ext),"wb").write(blob)
    try: print(ext or "plain", parts, [getattr(r,"n",None) if r._desc.name=="t/a" else r.s for r in RecordReader(os.path.join(root,"all.records"+ext))])
    except Exception as e: print(ext, "EXC", type(e).__name__, e)
