import io, os, sys, time, warnings, gzip, zlib, struct, collections
warnings.simplefilter("ignore")
from flow.record import RecordDescriptor, RecordReader, RecordStreamWriter, RecordStreamReader
D = RecordDescriptor("test/a", [("string","s"),("varint","n"),("bytes","b")])
E = RecordDescriptor("test/b", [("datetime","t"),("string[]","l")])
recs=[]
for i in range(12):
    recs.append(D("x"*i*3, i, bytes(range(i))) if i%3 else E("2020-01-01T00:00:%02d"%i, ["a"]*i))
class LogIO(io.BytesIO):
    def __init__(s): super().__init__(); s.ends=[]
buf=io.BytesIO(); sw=RecordStreamWriter(buf)
ends=[]
for r in recs:
    sw.write(r); ends.append(buf.tell())
data=buf.getvalue()
print("raw len",len(data))
def key(r): return (r._desc.name, tuple(repr(getattr(r,f)) for f in r.__slots__))
want=[key(r) for r in recs]
t0=time.time(); outcomes=collections.Counter()
for k in range(len(data)+1):
    got=[]; exc=None
    try:
        for r in RecordStreamReader(io.BytesIO(data[:k])): got.append(key(r))
    except Exception as e: exc=type(e).__name__
    nfull=sum(1 for e in ends if e<=k)
    assert got==want[:nfull], (k,len(got),nfull,exc)
    outcomes[exc]+=1
print("raw ok", outcomes, time.time()-t0)
# gzip with sync flushes
raw=io.BytesIO(); gz=gzip.GzipFile(fileobj=raw, mode="wb"); sw=RecordStreamWriter(gz)
for i,r in enumerate(recs):
    sw.write(r)
    if i%4==3: gz.flush()
gz.close(); cdata=raw.getvalue(); print("gz len", len(cdata))
t0=time.time(); outcomes=collections.Counter(); bad=0
for k in range(len(cdata)+1):
    cut=cdata[:k]
    # independent inflate
    try:
        d=zlib.decompressobj(31); plain=d.decompress(cut)
    except Exception: plain=b""
    nfull=sum(1 for e in ends if e<=len(plain))
    got=[]; exc=None
    try:
        rd=RecordReader(fileobj=io.BytesIO(cut))
        for r in rd: got.append(key(r))
    except Exception as e: exc=type(e).__name__
    if got!=want[:nfull]:
        bad+=1; print("MISMATCH",k,len(plain),len(got),nfull,exc)
    outcomes[exc]+=1
print("gz", outcomes, "bad",bad, time.time()-t0)
