# recon: for each candidate mutant (a realistic edit to flow.record), does the EXISTING suite still pass, and does the
# matching recon oracle notice? Scratch copies live in /dev/shm and are removed. Not framework code.
import os, re, shutil, subprocess, sys, json
SCR = "/dev/shm/flowrecord-recon/mut"
def sub(path, old, new, count=1):
    def f(root):
        p = os.path.join(root, path); s = open(p).read(); assert old in s, (path, old[:40]); open(p, "w").write(s.replace(old, new, count))
    return f
M = {
 # ---- C03
 "c03_shared_registry": ("C03", [sub("flow/record/packer.py", "    def __init__(self):\n        self.descriptors = {}\n", "    descriptors = {}\n\n    def __init__(self):\n")]),
 "c03_guard_by_name": ("C03", [sub("flow/record/packer.py", "            if obj._desc.identifier not in self.descriptors:\n                self.register(obj._desc, True)\n\n            data", "            if obj._desc.name not in self.descriptors:\n                self.register(obj._desc, True)\n\n            data")]),
 "c03_reader_keeps_first": ("C03", [sub("flow/record/stream.py", "                if isinstance(obj, RecordDescriptor):\n                    self.packer.register(obj)", "                if isinstance(obj, RecordDescriptor):\n                    if obj.name not in self.packer.descriptors:\n                        self.packer.register(obj)")]),
 "c03_grouped_no_register": ("C03", [sub("flow/record/packer.py", "            for desc in obj.descriptors:\n                if desc.identifier not in self.descriptors:\n                    self.register(desc, True)\n", "            for desc in obj.descriptors[:1]:\n                if desc.identifier not in self.descriptors:\n                    self.register(desc, True)\n")]),
 # ---- C04
 "c04_read1": ("C04", [sub("flow/record/stream.py", "        d = self.fp.read(size)\n        return self.packer.unpack(d)", "        d = self.fp.read1(size) if hasattr(self.fp, \"read1\") else self.fp.read(size)\n        return self.packer.unpack(d)")]),
 "c04_streaming_unpacker": ("C04", [sub("flow/record/packer.py", "    def unpack(self, d):\n        return unpackb(d, ext_hook=self.unpack_obj, use_list=False)", "    def unpack(self, d):\n        u = msgpack.Unpacker(raw=False, unicode_errors=\"surrogateescape\", ext_hook=self.unpack_obj, use_list=False)\n        u.feed(d)\n        for obj in u:\n            return obj")]),
 # ---- C11
 "c11_no_sniff_fallback": ("C11", [sub("flow/record/base.py", "        if not out and binary:\n            fp = open_stream(fp, mode)\n", "        if not out and binary and is_stdio:\n            fp = open_stream(fp, mode)\n")]),
 "c11_zstd_magic_typo": ("C11", [sub("flow/record/base.py", 'ZSTD_MAGIC = b"\\x28\\xb5\\x2f\\xfd"', 'ZSTD_MAGIC = b"\\x28\\xb5\\x2f\\xfe"')]),
 "c11_no_buffer_wrap": ("C11", [sub("flow/record/base.py", "    if not hasattr(fp, \"peek\"):\n        fp = io.BufferedReader(fp)\n\n    # We peek into the file at the maximum", "    if not hasattr(fp, \"peek\"):\n        return fp\n\n    # We peek into the file at the maximum")]),
 # ---- C16
 "c16_break_on_error": ("C16", [sub("flow/record/stream.py", "-- skipping to next reader\", reader, src, aRepr.repr(e))\n            continue", "-- skipping to next reader\", reader, src, aRepr.repr(e))\n            break")]),
 "c16_ioerror_stops": ("C16", [sub("flow/record/stream.py", "            log.error(\"{}({!r}): {}\".format(reader, src, e))\n", "            log.error(\"{}({!r}): {}\".format(reader, src, e))\n            return\n")]),
 "c16_skip_per_source": ("C16", [sub("flow/record/tools/rdump.py", "    record_iterator = islice(record_stream(args.src, selector), args.skip, islice_stop)", "    from itertools import chain\n    record_iterator = islice(chain.from_iterable(islice(record_stream([s], selector), args.skip, None) for s in args.src), 0, args.count)")]),
 # ---- C17
 "c17_split_gt": ("C17", [sub("flow/record/adapter/split.py", "        if self.written >= self.count:", "        if self.written > self.count:")]),
 "c17_exit_no_flush": ("C17", [sub("flow/record/adapter/__init__.py", "    def __exit__(self, *args):\n        self.flush()\n        self.close()\n\n\nclass AbstractReader", "    def __exit__(self, *args):\n        self.close()\n\n\nclass AbstractReader")]),
 "c17_split_no_count_reset": ("C17", [sub("flow/record/adapter/split.py", "            self.written = 0\n", "")]),
 # ---- C18
 "c18_autocommit": ("C18", [sub("flow/record/adapter/sqlite.py", "        self.con.execute(\"BEGIN\")", "        pass")]),
 "c18_commit_only_on_close": ("C18", [sub("flow/record/adapter/sqlite.py", "        if self.count % self.batch_size == 0:\n            self.flush()", "        pass")]),
 "c18_batch_off_by_one": ("C18", [sub("flow/record/adapter/sqlite.py", "        if self.count % self.batch_size == 0:", "        if self.count % (self.batch_size + 1) == 0:")]),
}
ORACLE = {
 "C03": [["recon/c03_walker_multiwriter.py", "300", "0"]],
 "C04": [["recon/c04_broad_stacks.py", "40"]],
 "C11": [["recon/c11_matrix_and_garbage.py"], ["recon/c11_delivery_classes.py", "300"]],
 "C16": [["recon/c16_reference_pipeline.py"]],
 "C17": [["recon/c17_history_sweep.py"], ["recon/c17_split_raw_concat.py"]],
 "C18": [["recon/c18_visibility_model.py"]],
}
only = sys.argv[1:] 
res = {}
for name, (prop, edits) in M.items():
    if only and not any(o in name for o in only): continue
    shutil.rmtree(SCR, ignore_errors=True); shutil.copytree("/repo", SCR, ignore=shutil.ignore_patterns(".git", "__pycache__"))
    for e in edits: e(SCR)
    env = dict(os.environ, PYTHONPATH=SCR, PATH="/venv/bin:" + os.environ["PATH"])
    t = subprocess.run(["/venv/bin/python", "-m", "pytest", "-q", "-p", "no:cacheprovider", "-x", "tests", "--deselect", "tests/test_rdump.py::test_rdump_pipe"], cwd=SCR, env=env, capture_output=True, text=True, timeout=600)
    tests = "PASS" if t.returncode == 0 else "FAIL(" + (re.findall(r"FAILED (\S+)", t.stdout) or ["?"])[0].split("::")[-1] + ")"
    outs = []
    for cmd in ORACLE[prop]:
        o = subprocess.run(["/venv/bin/python"] + cmd, cwd="/verif", env=env, capture_output=True, text=True, timeout=900)
        txt = (o.stdout + o.stderr)
        lines = [l for l in txt.strip().splitlines() if "conda" not in l]
        flagged = [l for l in lines if re.match(r"(bad|MISMATCH|EXC|!!|PREFIX|BOUNDARY|VIS|COUNT|ALTERED|Traceback|kinds failing|\('OTHER|\('WRONG)", l) or "False" in l or "Error" in l]
        outs.append((os.path.basename(cmd[0]), len(flagged), (flagged[-1][:110] if flagged else lines[-1][:110] if lines else "")))
    res[name] = (tests, outs); print(name, "| suite:", tests, "| oracle:", outs, flush=True)
shutil.rmtree(SCR, ignore_errors=True)
