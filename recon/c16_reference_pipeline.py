import io, os, sys, warnings, shutil, random, json, csv, datetime, gzip, logging
warnings.simplefilter("ignore")
logging.getLogger().addHandler(logging.NullHandler())
from flow.record import RecordDescriptor, RecordReader, RecordWriter
from flow.record.tools import rdump
UTC=datetime.timezone.utc
DA=RecordDescriptor("t/a",[("string","s"),("varint","n"),("datetime","t")])
DB=RecordDescriptor("t/b",[("varint","n"),("string","q")])
DC=RecordDescriptor("t/c",[("string","s"),("datetime","t1"),("datetime","t2")])
G=datetime.datetime(2020,1,1,tzinfo=UTC)
def mk(rng,i):
    k=rng.randrange(3)
    if k==0: return DA(rng.choice(["x","y","z"]),rng.randrange(5),G+datetime.timedelta(hours=i),_generated=G)
    if k==1: return DB(rng.randrange(5),rng.choice(["x","q"]),_generated=G)
    return DC(rng.choice(["x","y"]),G,G+datetime.timedelta(days=1),_generated=G)
SELS=[(None,lambda d:True),("r.n == 2",lambda d:d.get("n",object())==2),("r.s == 'x'",lambda d:d.get("s",object())=="x"),
      ("r.s in ['x','y'] and r.n != 3",lambda d:("s" in d and d["s"] in ("x","y")) and ("n" in d and d["n"]!=3)),
      ("r.q == 'q' or r.s == 'z'",lambda d:d.get("q",0)=="q" or d.get("s",0)=="z")]
def run(argv, stdin=b""):
    so,se,si=sys.stdout,sys.stderr,sys.stdin
    ob=io.BytesIO(); eb=io.BytesIO()
    sys.stdout=io.TextIOWrapper(ob,write_through=True); sys.stderr=io.TextIOWrapper(eb,write_through=True); sys.stdin=io.TextIOWrapper(io.BufferedReader(io.BytesIO(stdin)))
    try:
        try: rc=rdump.main(argv)
        except SystemExit as e: rc=("exit",e.code)
        sys.stdout.flush(); return rc,ob.getvalue(),eb.getvalue()
    finally: sys.stdout,sys.stderr,sys.stdin=so,se,si
def fd(r): return {f:getattr(r,f) for f in r._desc.fields}
root="/dev/shm/flowrecord-recon/c16"; bad=0
for seed in range(600):
    rng=random.Random(seed); shutil.rmtree(root,ignore_errors=True); os.makedirs(root)
    srcs=[]; expected=[]
    for si in range(rng.randrange(1,5)):
        kind=rng.choice(["good","good","gz","missing","trunc","garbage","empty"])
        p=os.path.join(root,"s%d.records%s"%(si,".gz" if kind=="gz" else ""))
        recs=[mk(rng,i) for i in range(rng.randrange(0,7))]
        if kind in("good","gz","trunc"):
            buf=io.BytesIO(); 
            from flow.record import RecordStreamWriter
            w=RecordStreamWriter(buf); w.flush(); ends=[]
            for r in recs: w.write(r); ends.append(buf.tell())
            data=buf.getvalue(); w.fp=None
            if kind=="trunc":
                k=rng.randrange(0,len(data)+1); data=data[:k]; recs=[r for r,e in zip(recs,ends) if e<=k]
            open(p,"wb").write(gzip.compress(data) if kind=="gz" else data)
        elif kind=="garbage": open(p,"wb").write(os.urandom(40)); recs=[]
        elif kind=="empty": open(p,"wb").write(b""); recs=[]
        else: recs=[]
        srcs.append(p); expected+= [(r._desc, fd(r)) for r in recs]
    sel,pred=rng.choice(SELS); skip=rng.choice([0,0,1,3]); cnt=rng.choice([None,None,1,2,5])
    F=rng.choice([None,None,"s","n,s","q,zz"]); X=rng.choice([None,None,"n","t"])
    exp=[e for e in expected if pred(e[1])]
    exp=exp[skip:]; 
    if cnt: exp=exp[:cnt]
    def proj(desc,d):
        names=[f for f in desc.fields]
        if F: names=[f for f in F.split(",") if f in desc.fields]
        if X: names=[f for f in names if f not in X.split(",")]
        return (desc.name,[(f,d[f]) for f in names])
    exp_full=list(exp)
    exp=[proj(*e) for e in exp]
    argv=list(srcs)
    if sel: argv+=["-s",sel]
    if rng.random()<0.5: argv+=["-n"]
    if skip: argv+=["--skip",str(skip)]
    if cnt: argv+=["-c",str(cnt)]
    if F: argv+=["-F",F]
    if X: argv+=["-X",X]
    mode=rng.choice(["stream","jsonl","text","csv"])
    out=os.path.join(root,"out.records")
    if mode=="stream": argv+=["-w",out]
    elif mode=="jsonl": argv+=["-J"]
    elif mode=="csv": argv+=["-C"]
    rc,so,se=run(argv)
    try:
        if mode=="stream":
            got=[(r._desc.name,[(f,getattr(r,f)) for f in r._desc.fields]) for r in RecordReader(out)]
        elif mode=="jsonl":
            got=[]
            for line in so.decode().splitlines():
                d=json.loads(line); got.append((None,[(k,v) for k,v in d.items() if not k.startswith("_")]))
            exp2=[(None,[(f,(v.isoformat() if isinstance(v,datetime.datetime) else v)) for f,v in fs]) for n,fs in exp]; exp=exp2
        elif mode=="text":
            got=so.decode().splitlines(); exp=["<%s %s>"%(n," ".join("%s=%r"%(f,v) for f,v in fs)) for n,fs in exp]
            got=[g.replace("<%s >"%g[1:-2],"<%s >"%g[1:-2]) for g in got]
        else:
            got=list(csv.reader(io.StringIO(so.decode(),newline="")))
            rows=[]; prev=None
            for (n,fs),e in zip(exp,exp_full):
                names=[f for f,_ in fs]; vals=[v for _,v in fs]
                if not F:
                    names+=["_source","_classification","_generated","_version"]; vals+=[None,None,G,1]
                key=(n,tuple(e[0].get_field_tuples()),tuple(names))
                pk=(n,tuple(names), tuple((t,f) for t,f in e[0].get_field_tuples() if f in names))
                if pk!=prev: rows.append(names); prev=pk
                rows.append(["" if v is None else (str(v) if not isinstance(v,datetime.datetime) else v.isoformat(" ")) for v in vals])
            exp=rows
        if got!=exp:
            bad+=1; print("MISMATCH",seed,mode,argv[len(srcs):],"\n  got",str(got)[:300],"\n  exp",str(exp)[:300],"\n",se.decode()[-300:])
    except Exception as e:
        bad+=1; print("EXC",seed,mode,type(e).__name__,e, rc, se.decode()[-300:])
    if bad>5: break
print("bad",bad)
