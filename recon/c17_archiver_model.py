# recon: PathTemplateWriter/RecordArchiver under a simulated clock and in-memory FS, against a conservation/placement model.
import builtins, io, os, sys, warnings, types, errno, bz2, posixpath, datetime as _dtm, random, gc, collections
warnings.simplefilter("ignore")
import flow.record.base as base, flow.record.stream as S
from flow.record import RecordDescriptor, RecordReader, RecordWriter, PathTemplateWriter, RecordArchiver
FS = {}; DIRS = set(); EV = []
class SimRaw(io.RawIOBase):
    def __init__(s, path, mode):
        s.path = path; s.mode = mode; s.pos = 0
        if 'w' in mode: FS[path] = bytearray(); EV.append(("create", path))
    def readable(s): return 'r' in s.mode
    def writable(s): return 'w' in s.mode
    def seekable(s): return True
    def seek(s, off, wh=0): s.pos = off if wh == 0 else (s.pos + off if wh == 1 else len(FS[s.path]) + off); return s.pos
    def tell(s): return s.pos
    def readinto(s, b):
        d = FS[s.path][s.pos:s.pos + len(b)]; b[:len(d)] = d; s.pos += len(d); return len(d)
    def write(s, b): b = bytes(b); FS[s.path][s.pos:s.pos + len(b)] = b; s.pos += len(b); return len(b)
real_open = builtins.open
def sim_open(file, mode="r", buffering=-1, encoding=None, errors=None, newline=None, closefd=True, opener=None):
    if isinstance(file, (str, os.PathLike)) and str(file).startswith("/simfs/"):
        path = str(file)
        if 'r' in mode and path not in FS: raise FileNotFoundError(errno.ENOENT, "No such file", path)
        if 'w' in mode and posixpath.dirname(path) not in DIRS: raise FileNotFoundError(errno.ENOENT, "No such dir", path)
        raw = SimRaw(path, mode)
        buf = io.BufferedWriter(raw) if 'w' in mode else io.BufferedReader(raw)
        return buf if 'b' in mode else io.TextIOWrapper(buf, encoding=encoding, errors=errors, newline=newline)
    return real_open(file, mode, buffering, encoding, errors, newline, closefd, opener)
builtins.open = sim_open; io.open = sim_open; bz2._builtin_open = sim_open
class OsPath:
    def __getattr__(s, k): return getattr(posixpath, k)
    def exists(s, p): return (p in FS or p in DIRS)
    def realpath(s, p): return p
class OsProxy:
    path = OsPath()
    def __getattr__(s, k): return getattr(os, k)
    def rename(s, a, b):
        if b in FS: EV.append(("overwrite", a, b))
        EV.append(("rename", a, b)); FS[b] = FS.pop(a)
    def makedirs(s, p, exist_ok=False):
        while p not in DIRS and p != "/": DIRS.add(p); p = posixpath.dirname(p)
S.os = OsProxy(); base.os = OsProxy()
class Clock: now = None
class _DT(_dtm.datetime):
    @classmethod
    def now(cls, tz=None): return Clock.now
px = types.ModuleType("dtp"); px.datetime = _DT; px.timezone = _dtm.timezone; S.datetime = px
import gzip, time as _time
gzip.time = types.SimpleNamespace(time=lambda: Clock.now.timestamp())
gc.disable()
UTC = _dtm.timezone.utc
D = RecordDescriptor("t/a", [("varint", "n")])
DTS = [0, 0, 0, 1e-6, 0.4, 1, 1, 3540, 3600, 3600, 86400, -3600, -3600, -86400]
classes = collections.Counter()
for seed in range(int(sys.argv[1]) if len(sys.argv) > 1 else 500):
    rng = random.Random(seed); FS.clear(); DIRS.clear(); DIRS.add("/simfs"); del EV[:]
    Clock.now = _dtm.datetime(2024, 1, 1, 10, 0, 0, tzinfo=UTC) + _dtm.timedelta(seconds=rng.randrange(86400))
    kind = rng.choice(["hour", "day", "archiver"])
    def new_writer():
        if kind == "hour": return PathTemplateWriter("/simfs/out/{name}-{ts:%Y%m%dT%H}.records.gz", name="n")
        if kind == "day": return PathTemplateWriter("/simfs/out/{ts:%Y-%m-%d}.records")
        return RecordArchiver("/simfs/arch", name="a")
    w = new_writer(); nid = 0; written = []; viol = []
    for step in range(rng.randrange(1, 25)):
        op = rng.choice(["w", "w", "w", "w", "adv", "adv", "restart"])
        if op == "adv": Clock.now += _dtm.timedelta(seconds=rng.choice(DTS))
        elif op == "restart": w.close(); w = new_writer()
        else:
            skew = rng.choice([0, 0, 0, -3600, 3600])
            r = D(nid, _generated=Clock.now + _dtm.timedelta(seconds=skew)); w.write(r); written.append(nid); nid += 1
    w.close()
    found = []
    for p in sorted(FS):
        try: found += [r.n for r in RecordReader(p)]
        except Exception as e: viol.append("unreadable:%s:%s" % (p, type(e).__name__))
    if any(e[0] == "overwrite" for e in EV): viol.append("overwrite")
    if sorted(found) != written: viol.append("conservation lost=%d dup=%d" % (len(set(written) - set(found)), len(found) - len(set(found))))
    classes[tuple(sorted(v.split()[0] for v in viol))] += 1
    if viol and "overwrite" not in viol: print("!!", seed, kind, viol)
print(classes)
