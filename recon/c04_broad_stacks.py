# recon: C04 oracle over richer writer stacks (raw / buffered / gzip+flush / nested records / frames > buffer), all cuts,
# read back through several reader stacks and delivery schedules. Not framework code.
import io, os, sys, time, warnings, gzip, zlib, struct, random, collections, datetime, msgpack
warnings.simplefilter("ignore")
from flow.record import RecordDescriptor, RecordReader, RecordStreamWriter, RecordStreamReader, GroupedRecord
UTC = datetime.timezone.utc
DS = [RecordDescriptor("t/a", [("string", "s"), ("varint", "n"), ("bytes", "b")]),
      RecordDescriptor("t/b", [("datetime", "t"), ("string[]", "l"), ("uint16", "p")]),
      RecordDescriptor("t/a", [("string", "s"), ("float", "f")]),
      RecordDescriptor("t/h", [("record", "child"), ("record[]", "kids"), ("path", "p")]),
      RecordDescriptor("t/c", [("net.ipaddress", "ip"), ("digest", "d"), ("boolean", "ok"), ("uri", "u")])]
G = datetime.datetime(2021, 2, 3, 4, 5, 6, 7, tzinfo=UTC)
def mk(rng, depth=0):
    k = rng.randrange(5 if depth == 0 else 3)
    if k == 0: return DS[0](rng.choice(["", "x" * rng.choice([1, 31, 32, 255, 256, 9000]), "h\udcffi"]), rng.choice([0, -1, 2**63, 2**64, -2**70, 7]), bytes(rng.randrange(256) for _ in range(rng.choice([0, 3, 40]))), _generated=G)
    if k == 1: return DS[1](G + datetime.timedelta(seconds=rng.randrange(10**6)), ["e" * rng.randrange(4) for _ in range(rng.randrange(4))], rng.choice([0, 65535]), _generated=G)
    if k == 2: return DS[2](rng.choice(["a", "b"]), rng.choice([0.0, -0.0, 1.5, 1e300]), _generated=G)
    if k == 3: return DS[3](mk(rng, 1) if rng.random() < .7 else None, [mk(rng, 1) for _ in range(rng.randrange(3))], rng.choice(["/a/b", "c:\\x\\y"]), _generated=G)
    return DS[4](rng.choice(["1.2.3.4", "2001:db8::1"]), rng.choice([None, ("d41d8cd98f00b204e9800998ecf8427e", None, None)]), rng.choice([True, False]), "http://x/y?z", _generated=G)
def obs(r):
    if r is None: return None
    if isinstance(r, GroupedRecord): return ("G", r.name, tuple(obs(x) for x in r.records))
    out = []
    for t, f in r._desc.get_field_tuples():
        v = getattr(r, f)
        if t == "record": v = obs(v)
        elif t == "record[]": v = tuple(obs(x) for x in v)
        elif t == "float": v = struct.pack(">d", v) if v is not None else None
        else: v = (type(v).__name__, repr(v))
        out.append(v)
    return (r._desc.name, r._desc.get_field_tuples(), tuple(out), repr(r._generated), r._source)
class Raw(io.RawIOBase):
    def __init__(s): s.data = bytearray(); s.calls = []
    def writable(s): return True
    def write(s, b): s.data += bytes(b); s.calls.append(len(s.data)); return len(b)
class Chunk(io.RawIOBase):
    def __init__(s, d, rng): s.d = d; s.p = 0; s.rng = rng
    def readable(s): return True
    def readinto(s, b):
        if s.p >= len(s.d): return 0
        n = min(len(b), len(s.d) - s.p, s.rng.choice([1, 2, 7, 64, 8192])); b[:n] = s.d[s.p:s.p + n]; s.p += n; return n
def walk(buf):
    """independent frame walker: yields end offsets of complete frames"""
    pos = 0; ends = []
    while pos + 4 <= len(buf):
        L = struct.unpack(">I", buf[pos:pos + 4])[0]
        if pos + 4 + L > len(buf): break
        pos += 4 + L; ends.append(pos)
    return ends
stats = collections.Counter(); t0 = time.time(); bad = 0
for seed in range(int(sys.argv[1]) if len(sys.argv) > 1 else 120):
    rng = random.Random(seed)
    recs = [mk(rng) for _ in range(rng.randrange(0, 10))]
    stack = rng.choice(["raw", "buf", "gz", "gzbuf"])
    raw = Raw()
    if stack == "raw": fp = raw
    elif stack == "buf": fp = io.BufferedWriter(raw, buffer_size=rng.choice([1, 16, 100, 8192]))
    elif stack == "gz": fp = gzip.GzipFile(fileobj=raw, mode="wb", mtime=0)
    else: fp = gzip.GzipFile(fileobj=io.BufferedWriter(raw, buffer_size=rng.choice([16, 8192])), mode="wb", mtime=0)
    plain = io.BytesIO()  # shadow: plaintext frame layout via a second writer on identical input
    w = RecordStreamWriter(fp); w2 = RecordStreamWriter(plain); rec_end = []
    w.flush(); w2.flush()
    for r in recs:
        w.write(r); w2.write(r); rec_end.append(plain.tell())
        if stack.startswith("gz") and rng.random() < .4: fp.flush()
    w.close(); w2fp = plain.getvalue(); w2.fp = None
    disk = bytes(raw.data); want = [obs(r) for r in recs]
    gzlayer = stack.startswith("gz")
    cuts = range(len(disk) + 1) if len(disk) < 3000 else sorted(set(rng.randrange(len(disk) + 1) for _ in range(600)) | {len(disk)})
    for k in cuts:
        cut = disk[:k]
        if gzlayer:
            try: P = zlib.decompressobj(31).decompress(cut)
            except Exception: P = b""
        else: P = cut
        assert w2fp.startswith(P), "shadow plaintext mismatch"
        nfull = sum(1 for e in rec_end if e <= len(P))
        boundary = len(P) in walk(w2fp) and len(P) > 0
        how = rng.choice(["bytesio", "chunk", "fileobj"])
        got = []; exc = None
        try:
            if how == "bytesio" and not gzlayer: rd = RecordStreamReader(io.BytesIO(cut))
            elif how == "chunk" and not gzlayer: rd = RecordStreamReader(io.BufferedReader(Chunk(cut, rng)))
            elif how == "chunk": rd = RecordStreamReader(gzip.GzipFile(fileobj=io.BufferedReader(Chunk(cut, rng))))
            else: rd = RecordReader(fileobj=io.BytesIO(cut))
            for r in rd: got.append(obs(r))
        except Exception as e: exc = type(e).__name__
        stats[(stack, how, exc)] += 1
        if got != want[:nfull]: bad += 1; print("PREFIX-MISMATCH", seed, stack, how, k, len(got), nfull, exc)
        if boundary and exc is not None and not (how == "fileobj" and len(P) < 19): bad += 1; print("BOUNDARY-RAISED", seed, stack, how, k, exc)
        if bad > 10: break
    if bad > 10: break
print("bad", bad, "evals", sum(stats.values()), "%.1fs" % (time.time() - t0))
for k, v in sorted(stats.items(), key=str): print(k, v)
