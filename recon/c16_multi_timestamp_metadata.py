import warnings; warnings.simplefilter("ignore")
from flow.record import RecordDescriptor, iter_timestamped_records
import datetime
D=RecordDescriptor("t/a",[("string","s"),("datetime","t1"),("datetime","t2")])
r=D("x","2020-01-01","2021-01-01",_source="SRC",_classification="C",_generated=datetime.datetime(2000,1,1))
for x in iter_timestamped_records(r): print(x, x._source, x._classification, x._generated)
