# recon: wider C16 reference pipeline: --multi-timestamp, --split, -l, line mode, metadata overrides, stdin source, jsonfile sources
import io, os, sys, warnings, shutil, random, json, csv, datetime, gzip, logging, re, collections
warnings.simplefilter("ignore"); logging.getLogger().addHandler(logging.NullHandler())
from flow.record import RecordDescriptor, RecordReader, RecordWriter, RecordStreamWriter
from flow.record.tools import rdump
UTC = datetime.timezone.utc; G = datetime.datetime(2020, 1, 1, tzinfo=UTC)
DA = RecordDescriptor("t/a", [("string", "s"), ("varint", "n"), ("datetime", "t")])
DB = RecordDescriptor("t/b", [("varint", "n"), ("string", "q")])
DC = RecordDescriptor("t/c", [("string", "s"), ("datetime", "t1"), ("datetime", "t2")])
def mk(rng, i):
    k = rng.randrange(3)
    if k == 0: return DA(rng.choice(["x", "y", "z"]), rng.randrange(5), G + datetime.timedelta(hours=i), _generated=G, _source="orig")
    if k == 1: return DB(rng.randrange(5), rng.choice(["x", "q"]), _generated=G)
    return DC(rng.choice(["x", "y"]), G, G + datetime.timedelta(days=1), _generated=G, _classification="cls")
SELS = [(None, lambda d: True), ("r.n == 2", lambda d: d.get("n", object()) == 2), ("r.s == 'x'", lambda d: d.get("s", object()) == "x"),
        ("r.n < 3 and r.s != 'z'", lambda d: ("n" in d and d["n"] < 3) and ("s" in d and d["s"] != "z")), ("r.q == 'q' or r.s == 'z'", lambda d: d.get("q", 0) == "q" or d.get("s", 0) == "z"),
        ("not r.n > 1", lambda d: not ("n" in d and d["n"] > 1))]
KEEP = []
def run(argv, stdin=b""):
    so, se, si = sys.stdout, sys.stderr, sys.stdin
    ob = io.BytesIO(); eb = io.BytesIO()
    a = sys.stdout = io.TextIOWrapper(ob, write_through=True); b = sys.stderr = io.TextIOWrapper(eb, write_through=True); c = sys.stdin = io.TextIOWrapper(io.BufferedReader(io.BytesIO(stdin))); KEEP[:] = [a, b, c]
    try:
        try: rc = rdump.main(argv)
        except SystemExit as e: rc = ("exit", e.code)
        sys.stdout.flush(); return rc, ob.getvalue(), eb.getvalue()
    finally: sys.stdout, sys.stderr, sys.stdin = so, se, si
root = "/dev/shm/flowrecord-recon/c16w"; bad = 0; modes = collections.Counter()
for seed in range(int(sys.argv[1]) if len(sys.argv) > 1 else 600):
    rng = random.Random(seed); shutil.rmtree(root, ignore_errors=True); os.makedirs(root)
    srcs = []; expected = []; stdin = b""
    for si in range(rng.randrange(1, 5)):
        kind = rng.choice(["good", "good", "gz", "missing", "trunc", "garbage", "empty", "json", "stdin", "dir"])
        if kind == "stdin" and "-" in srcs: kind = "good"
        p = os.path.join(root, "s%d.%s" % (si, "json" if kind == "json" else "records" + (".gz" if kind == "gz" else "")))
        recs = [mk(rng, i) for i in range(rng.randrange(0, 7))]
        if kind in ("good", "gz", "trunc", "stdin"):
            buf = io.BytesIO(); w = RecordStreamWriter(buf); w.flush(); ends = []
            for r in recs: w.write(r); ends.append(buf.tell())
            data = buf.getvalue(); w.fp = None
            if kind == "trunc":
                k = rng.randrange(0, len(data) + 1); data = data[:k]; recs = [r for r, e in zip(recs, ends) if e <= k]
            if kind == "stdin": stdin = data; p = "-"
            else: open(p, "wb").write(gzip.compress(data) if kind == "gz" else data)
        elif kind == "json":
            with RecordWriter(p) as w:
                for r in recs: w.write(r)
        elif kind == "garbage": open(p, "wb").write(os.urandom(40)); recs = []
        elif kind == "empty": open(p, "wb").write(b""); recs = []
        elif kind == "dir": os.makedirs(p); recs = []
        else: recs = []
        srcs.append(p); expected += recs
    sel, pred = rng.choice(SELS); skip = rng.choice([0, 0, 1, 3]); cnt = rng.choice([None, None, 1, 2, 5])
    F = rng.choice([None, None, None, "s", "n,s", "q,zz"]); X = rng.choice([None, None, "n", "t"])
    rsrc = rng.choice([None, None, "SRC"]); rcls = rng.choice([None, "CLS"]); multi = rng.random() < .3
    mode = rng.choice(["stream", "split", "jsonl", "text", "line", "list"])
    fd = lambda r: {f: getattr(r, f) for f in r._desc.fields}
    exp = [r for r in expected if pred(fd(r))][skip:]
    if cnt: exp = exp[:cnt]
    # model records as (name, [(field, type, value)...], source, classification)
    def model(r):
        names = list(r._desc.fields)
        if F: names = [f for f in F.split(",") if f in r._desc.fields]
        if X: names = [f for f in names if f not in X.split(",")]
        return [r._desc.name, [(f, r._desc.fields[f].typename, getattr(r, f)) for f in names], rsrc if rsrc is not None else r._source, rcls if rcls is not None else r._classification]
    exp = [model(r) for r in exp]
    if multi and mode != "list":   # list mode (-l) prints descriptors of the sliced records; it never expands
        out = []
        for name, fields, s, c in exp:
            dts = [(f, v) for f, t, v in fields if t == "datetime"]
            if not dts: out.append([name, fields, s, c, False]); continue
            for f, v in dts: out.append([name, [("ts", "datetime", v), ("ts_description", "string", f)] + fields, None, None, True])
        exp = out
    else: exp = [e + [False] for e in exp]
    argv = list(srcs)
    if sel: argv += ["-s", sel]
    if rng.random() < .5: argv += ["-n"]
    if skip: argv += ["--skip", str(skip)]
    if cnt: argv += ["-c", str(cnt)]
    if F: argv += ["-F", F]
    if X: argv += ["-X", X]
    if rsrc: argv += ["--record-source", rsrc]
    if rcls: argv += ["--record-classification", rcls]
    if multi: argv += ["--multi-timestamp"]
    modes[mode] += 1
    out = os.path.join(root, "out.records"); N = rng.choice([1, 2, 3])
    if mode == "stream": argv += ["-w", out]
    elif mode == "split": argv += ["-w", out, "--split", str(N), "--suffix-length", str(rng.choice([1, 2, 3]))]
    elif mode == "jsonl": argv += ["-J"]
    elif mode == "line": argv += ["-L"]
    elif mode == "list": argv += ["-l"]
    rc, so, se = run(argv, stdin)
    try:
        def rec_model(r): return [r._desc.name, [(f, r._desc.fields[f].typename, getattr(r, f)) for f in r._desc.fields], r._source, r._classification]
        def cmp_records(got_recs):
            got = [rec_model(r) for r in got_recs]
            if len(got) != len(exp): return "count %d != %d" % (len(got), len(exp))
            for g, e in zip(got, exp):
                if g[:2] != e[:2]: return "fields %r != %r" % (g[:2], e[:2])
                if not e[4] and (g[2], g[3]) != (e[2], e[3]): return "metadata %r != %r" % (g[2:4], e[2:4])
        err = None
        if mode == "stream": err = cmp_records(list(RecordReader(out)))
        elif mode == "split":
            parts = sorted((f for f in os.listdir(root) if f.startswith("out.")), key=lambda f: int(re.findall(r"\.(\d+)\.", f)[0]))
            allr = []
            for f in parts:
                rs = list(RecordReader(os.path.join(root, f)))
                if len(rs) > N: err = "part over limit"
                allr += rs
            err = err or cmp_records(allr)
        elif mode == "jsonl":
            lines = so.decode().splitlines()
            if len(lines) != len(exp): err = "count %d != %d" % (len(lines), len(exp))
            for line, e in zip(lines, exp):
                d = json.loads(line); gotf = [(k, v) for k, v in d.items() if not k.startswith("_")]
                expf = [(f, v.isoformat() if isinstance(v, datetime.datetime) else v) for f, t, v in e[1]]
                if gotf != expf: err = "json fields %r != %r" % (gotf, expf)
                if not e[4] and (d["_source"], d["_classification"]) != (e[2], e[3]): err = "json metadata"
        elif mode == "text":
            lines = so.decode().splitlines(); want = ["<%s %s>" % (e[0], " ".join("%s=%r" % (f, v) for f, t, v in e[1])) for e in exp]
            lines = [l for l in lines]; 
            if [l.replace(" >", ">") for l in lines] != [w.replace(" >", ">") for w in want]: err = "text %r != %r" % (lines[:2], want[:2])
        elif mode == "line":
            blocks = so.decode().split("--[ RECORD ")[1:]
            if len(blocks) != len(exp): err = "line count %d != %d" % (len(blocks), len(exp))
            for i, (b, e) in enumerate(zip(blocks, exp), 1):
                if not b.startswith("%d ]--" % i): err = "line numbering"
                kv = [tuple(x.strip() for x in l.split(" = ", 1)) for l in b.splitlines()[1:]]
                wantkv = [(f, str(v)) for f, t, v in e[1]]
                if kv[:len(wantkv)] != wantkv: err = "line fields %r != %r" % (kv, wantkv)
        else:
            text = so.decode(); m = re.search(r"Processed (\d+) records", text)
            if not m or int(m.group(1)) != len(exp): err = "list processed %s != %d" % (m and m.group(1), len(exp))
        if err: bad += 1; print("MISMATCH", seed, mode, argv[len(srcs):], err, "| rc", rc, "|", se.decode()[-200:].replace("\n", " "))
    except Exception as e:
        bad += 1; print("EXC", seed, mode, type(e).__name__, str(e)[:150], argv[len(srcs):], rc, se.decode()[-200:])
    if bad > 8: break
print("bad", bad, dict(modes)); shutil.rmtree(root, ignore_errors=True)
