# recon: SqliteReader suspended between fetchmany batches holds a SHARED lock; writer COMMIT -> SQLITE_BUSY; retry after release
import os, shutil, sqlite3, types, warnings
warnings.simplefilter("ignore")
from flow.record import RecordDescriptor
import flow.record.adapter.sqlite as SQ
px = types.ModuleType("sqlite3_proxy"); px.__dict__.update({k: getattr(sqlite3, k) for k in dir(sqlite3) if not k.startswith("__")})
px.connect = lambda path, **kw: sqlite3.connect(path, **{"timeout": 0, **kw})
SQ.sqlite3 = px
d = "/dev/shm/flowrecord-recon/busy"; shutil.rmtree(d, ignore_errors=True); os.makedirs(d); p = os.path.join(d, "t.db")
D = RecordDescriptor("t/a", [("varint", "n")])
w = SQ.SqliteWriter(p, batch_size=2)
for i in range(4): w.write(D(i))           # committed: 4
rd = SQ.SqliteReader(p, batch_size=1); it = iter(rd); first = next(it)   # cursor open -> SHARED lock held
events = []
for i in range(4, 8):
    try: w.write(D(i)); events.append((i, "ok"))
    except sqlite3.OperationalError as e: events.append((i, "BUSY"))
obs = sqlite3.connect(p, timeout=0)
def vis():
    try: return obs.execute('select count(*) from "t/a"').fetchall()
    except sqlite3.OperationalError as e: return "observer BUSY (writer holds PENDING after its failed COMMIT)"
print(events, "visible:", vis())
try: w.close(); print("close ok (unexpected)")
except sqlite3.OperationalError as e: print("close BUSY:", e)
rest = [r.n for r in it]                   # drain -> lock released
print("reader saw", [first.n] + rest)
w.close(); print("close after release ok; visible:", obs.execute('select n from "t/a" order by rowid').fetchall())
shutil.rmtree(d)
