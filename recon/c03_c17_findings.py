import io, os, sys, time, warnings, shutil, datetime as _dtm, gzip
warnings.simplefilter("ignore")
from flow.record import RecordDescriptor, RecordReader, RecordWriter, RecordStreamWriter, RecordStreamReader, PathTemplateWriter
import flow.record.stream as S
D = RecordDescriptor("test/a", [("string","s"),("varint","n")])
root="/dev/shm/flowrecord-recon/arch"; shutil.rmtree(root, ignore_errors=True); os.makedirs(root)
UTC=_dtm.timezone.utc
# rotation within same second
w = PathTemplateWriter(os.path.join(root,"{name}-{record._generated:%Y%m%dT%H}.records.gz"))
tA=_dtm.datetime(2024,1,1,10,tzinfo=UTC); tB=_dtm.datetime(2024,1,1,11,tzinfo=UTC)
seq=[tA,tB,tA,tB,tA,tB]
for i,t in enumerate(seq):
    w.write(D("r%d"%i, i, _generated=t))
w.close()
tot=0
for f in sorted(os.listdir(root)):
    recs=[r.s for r in RecordReader(os.path.join(root,f))]
    tot+=len(recs); print(f, recs)
print("total", tot, "of", len(seq))
# identifier collision
A = RecordDescriptor("col/x", [("stringlist","a"),("string","b")])
B = RecordDescriptor("col/x", [("string","a"),("string","listb")])
print(A.identifier, B.identifier)
buf=io.BytesIO(); sw=RecordStreamWriter(buf); sw.write(A(["p","q"],"bb")); sw.write(B("aa","lb"))
data=buf.getvalue()
try:
    for r in RecordStreamReader(io.BytesIO(data)): print(r, r._desc.get_field_tuples())
except Exception as e: print("EXC",type(e).__name__,e)
# avro close w/o flush
p="/dev/shm/flowrecord-recon/x.avro"
w=RecordWriter(p); w.write(D("a",1)); w.close()
print("avro size", os.path.getsize(p))
try: print(len(list(RecordReader(p))))
except Exception as e: print("EXC",type(e).__name__,e)
# stream close without flush, no records
for p in ("/dev/shm/flowrecord-recon/e.records","/dev/shm/flowrecord-recon/e.records.gz","/dev/shm/flowrecord-recon/e.json", "/dev/shm/flowrecord-recon/e.avro", "/dev/shm/flowrecord-recon/e.sqlite"):
    if os.path.exists(p): os.remove(p)
    uri = p if not p.endswith("sqlite") else "sqlite://"+p
    w=RecordWriter(uri); w.close()
    try: print(p, os.path.getsize(p), len(list(RecordReader(uri))))
    except Exception as e: print(p, os.path.getsize(p), "EXC",type(e).__name__,e)
