import warnings; warnings.simplefilter("ignore")
from flow.record import RecordDescriptor
from flow.record.selector import Selector, CompiledSelector
A=RecordDescriptor("t/a",[("varint","n"),("string","s")]); B=RecordDescriptor("t/b",[("string","q")])
ra=A(2,"x"); rb=B("q")
exprs=["r.n == 2","r.n != 2","r.n < 3","r.n > 1","r.n <= 2","r.n >= 2","2 >= r.n","2 <= r.n","r.n in [1,2]","r.n not in [1,2]","r.n not in [5]","not r.n == 2","not (r.n in [1,2])",
       "r.s in ['x']","'x' in r.s","'x' not in r.s","r.n == 2 and r.s == 'x'","r.n == 2 or r.q == 'q'","r.n is None","r.n == None", "r.n", "not r.n", "r.n + 1 == 3", "r.n == r.q", "r.q != r.n"]
for e in exprs:
    row=[]
    for rec in (ra,rb):
        for cls in (Selector,CompiledSelector):
            try: v=cls(e).match(rec); row.append(repr(bool(v)) if not isinstance(v,bool) else str(v))
            except Exception as ex: row.append(type(ex).__name__)
    print("%-28s has:[I=%s C=%s]  missing:[I=%s C=%s]"%(e,*row))
