import io, os, sys, warnings, itertools, shutil, collections, sqlite3, gzip, json
warnings.simplefilter("ignore")
from flow.record import RecordDescriptor, RecordReader, RecordWriter
D = RecordDescriptor("test/a", [("string","s"),("varint","n")])
root="/dev/shm/flowrecord-recon/c17"; 
targets={"stream":"x.records","gz":"x.records.gz","bz2":"x.records.bz2","lz4":"x.records.lz4","zst":"x.records.zst",
 "json":"x.json","avro":"x.avro","sqlite":"sqlite://{root}/x.db","csv":"x.csv","line":"line://{root}/x.txt","text":"text://{root}/x.txt2",
 "split":"split://{root}/s.records?count=2","splitjson":"split+jsonfile://{root}/s.json?count=2"}
res=collections.defaultdict(list)
def count_back(kind, uri, n):
    if kind in ("line",):
        return open(f"{root}/x.txt").read().count("--[ RECORD")
    if kind=="text":
        return len(open(f"{root}/x.txt2").read().splitlines())
    if kind.startswith("split"):
        tot=0; parts=sorted(f for f in os.listdir(root) if f.startswith("s."))
        for f in parts:
            c=len(list(RecordReader(os.path.join(root,f)))); assert c<=2; tot+=c
        return tot
    return len(list(RecordReader(uri)))
for kind,t in targets.items():
    for L in range(1,5):
        for hist in itertools.product("wfc", repeat=L):
            hist="".join(hist)+"c"
            if "c" in hist[:-1] and hist.index("c")<len(hist)-2: continue  # allow at most double close at the end
            if "cw" in hist or "cf" in hist: continue
            shutil.rmtree(root,ignore_errors=True); os.makedirs(root)
            uri=t.format(root=root) if "{root}" in t else os.path.join(root,t)
            n=0
            try:
                w=RecordWriter(uri)
                for op in hist:
                    if op=="w": w.write(D("v",n)); n+=1
                    elif op=="f": w.flush()
                    else: w.close()
                got=count_back(kind,uri,n)
                if got!=n: res[kind].append((hist,"count",got,n))
            except Exception as e:
                res[kind].append((hist,type(e).__name__,str(e)[:60]))
for k,v in res.items():
    print(k, len(v), v[:6])
print("kinds failing:", list(res))
