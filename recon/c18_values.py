# recon: SQLite value fidelity for the classes C18 lists, with gaining-fields evolution (NULL for absent columns)
import os, shutil, sqlite3, warnings, random, datetime, sys, collections
warnings.simplefilter("ignore")
from flow.record import RecordDescriptor, RecordReader, RecordWriter
UTC = datetime.timezone.utc
FT = {"s": "string", "n": "varint", "f": "float", "b": "bytes", "t": "datetime", "p": "path", "ip": "net.ipaddress", "select": "string", "Order": "varint", "fs": "filesize"}
def val(rng, t):
    if rng.random() < .15: return None
    if t == "string": return rng.choice(["", "x", "héllo wörld", "quote'\"s", "line\nbreak\r\n", "tab\t;,", "emoji \U0001F600", "nul\x00in", " lead", "NULL", "0"])
    if t in ("varint", "filesize"): return rng.choice([0, 1, -1, 2**63 - 1, -2**63, 2**31, 255, rng.randrange(-10**12, 10**12)])
    if t == "float": return rng.choice([0.0, -0.0, 1.0, -1.5, 1e300, 5e-324, 3.141592653589793, 1e15 + 0.5])
    if t == "bytes": return rng.choice([b"", b"\x00", b"\x00\x01\xff", b"abc", b"0"])
    if t == "datetime": return rng.choice([datetime.datetime(2020, 1, 2, 3, 4, 5, 678, tzinfo=UTC), datetime.datetime(1969, 12, 31, 23, 59, 59, 999999, tzinfo=datetime.timezone(datetime.timedelta(hours=2))), datetime.datetime(1, 1, 1, tzinfo=UTC), datetime.datetime(9999, 12, 31, 23, 59, 59, tzinfo=UTC), datetime.datetime(2000, 1, 1, tzinfo=datetime.timezone(datetime.timedelta(hours=-9, minutes=-30)))])
    if t == "path": return rng.choice(["/tmp/x", "rel/y"])
    if t == "net.ipaddress": return rng.choice(["1.2.3.4", "::1"])
def norm(t, v):
    if v is None: return None
    if t == "datetime": return (v.replace(tzinfo=None), v.utcoffset())
    if t in ("path", "net.ipaddress"): return str(v)
    return v
d = "/dev/shm/flowrecord-recon/c18v"; bad = collections.Counter()
for seed in range(int(sys.argv[1]) if len(sys.argv) > 1 else 500):
    rng = random.Random(seed); shutil.rmtree(d, ignore_errors=True); os.makedirs(d); p = os.path.join(d, "t.db")
    names = rng.sample(["t/a", "select", "Mixed/Case_1", "x"], 2)
    base_fields = {n: rng.sample(sorted(FT), rng.randrange(1, 4)) for n in names}
    rows = collections.defaultdict(list); cols = {n: list(base_fields[n]) for n in names}
    w = RecordWriter("sqlite://%s?batch_size=%d" % (p, rng.choice([1, 3, 1000])))
    for i in range(rng.randrange(0, 12)):
        n = rng.choice(names)
        if rng.random() < .25:   # evolution: gain a field
            extra = [f for f in sorted(FT) if f not in cols[n]]
            if extra: cols[n].append(rng.choice(extra))
        fields = list(cols[n]) if rng.random() < .7 else list(base_fields[n])
        D = RecordDescriptor(n, [(FT[f], f) for f in fields])
        vals = {f: val(rng, FT[f]) for f in fields}
        w.write(D(**vals)); rows[n].append({f: norm(FT[f], getattr(D(**vals), f)) for f in fields})
    w.close()
    try:
        back = collections.defaultdict(list)
        for r in RecordReader("sqlite://" + p): back[r._desc.name].append(r)
        for n in names:
            if len(back[n]) != len(rows[n]): bad["count"] += 1; print("COUNT", seed, n, len(back[n]), len(rows[n])); continue
            for exp, r in zip(rows[n], back[n]):
                for f in [x for x in r._desc.fields]:
                    g = getattr(r, f); t = FT[f]
                    e = exp.get(f)  # None when the row's descriptor lacked the column
                    gn = norm(t, g) if t == "datetime" or g is None else (str(g) if t in ("path", "net.ipaddress") else g)
                    if gn != e and not (t == "float" and e is not None and gn == e):
                        bad[(t, repr(e)[:30], repr(gn)[:30])] += 1
    except Exception as ex:
        bad[("EXC", type(ex).__name__, str(ex)[:60])] += 1
print("bad classes:"); [print(" ", k, v) for k, v in bad.most_common(20)]
shutil.rmtree(d, ignore_errors=True)
