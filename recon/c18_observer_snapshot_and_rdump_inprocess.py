import io, os, sys, time, warnings, types, sqlite3, shutil
warnings.simplefilter("ignore")
from flow.record import RecordDescriptor, RecordReader, RecordWriter
import flow.record.adapter.sqlite as SQ
from flow.record.tools import rdump
D = RecordDescriptor("test/a", [("string","s"),("varint","n")])
E = RecordDescriptor("test/b", [("string","s"),("datetime","t")])
d="/dev/shm/flowrecord-recon/sq"; shutil.rmtree(d,ignore_errors=True); os.makedirs(d)
# proxy sqlite3 with timeout=0
px=types.ModuleType("sqlite3_proxy")
px.__dict__.update({k:getattr(sqlite3,k) for k in dir(sqlite3) if not k.startswith("__")})
def connect(path, **kw):
    kw.setdefault("timeout",0); return sqlite3.connect(path, **kw)
px.connect=connect
SQ.sqlite3=px
p=os.path.join(d,"t.db")
w=SQ.SqliteWriter(p, batch_size=3)
obs=sqlite3.connect(p, timeout=0)
def visible():
    out={}
    for (name,) in obs.execute("select name from sqlite_master where type='table'").fetchall():
        out[name]=obs.execute(f'select count(*) from "{name}"').fetchall()[0][0]
    return out
def snapshot(i):
    sd=os.path.join(d,"snap%d"%i); os.makedirs(sd)
    for f in os.listdir(d):
        if f.startswith("t.db"): shutil.copy(os.path.join(d,f), os.path.join(sd,f))
    c=sqlite3.connect(os.path.join(sd,"t.db"))
    out={}
    for (name,) in c.execute("select name from sqlite_master where type='table'").fetchall():
        out[name]=c.execute(f'select count(*) from "{name}"').fetchall()[0][0]
    c.close(); return out
for i in range(8):
    rec = D("x",i) if i not in (4,) else E("y","2020-01-01")
    w.write(rec)
    print(i, "visible", visible(), "crash", snapshot(i), sorted(os.listdir(d))[:3])
# BUSY: observer holds read txn (unfinished cursor)
cur=obs.execute('select * from "test/a"'); cur.fetchone()
try:
    w.write(D("z",100)); w.flush(); print("flush ok?")
except Exception as e: print("BUSY", type(e).__name__, e)
cur.fetchall()
t0=time.time(); w.close(); print("close ok", time.time()-t0, visible())
# rdump in-process
class Out(io.TextIOWrapper): pass
def run_rdump(argv, stdin=b""):
    so, se, si = sys.stdout, sys.stderr, sys.stdin
    ob=io.BytesIO(); eb=io.BytesIO()
    sys.stdout=io.TextIOWrapper(ob, write_through=True); sys.stderr=io.TextIOWrapper(eb, write_through=True)
    sys.stdin=io.TextIOWrapper(io.BufferedReader(io.BytesIO(stdin)))
    try:
        try: rc=rdump.main(argv)
        except SystemExit as e: rc=("exit",e.code)
        sys.stdout.flush()
        return rc, ob.getvalue(), eb.getvalue()
    finally: sys.stdout, sys.stderr, sys.stdin = so,se,si
good=os.path.join(d,"g.records"); 
with RecordWriter(good) as ww:
    for i in range(5): ww.write(D("g",i))
data=open(good,"rb").read()
open(os.path.join(d,"trunc.records"),"wb").write(data[:len(data)-7])
open(os.path.join(d,"garbage.records"),"wb").write(b"hello world this is garbage")
t0=time.time()
rc,out,err=run_rdump([good, os.path.join(d,"missing.records"), os.path.join(d,"trunc.records"), os.path.join(d,"garbage.records"), good, "-s","r.n >= 1","--skip","1","-c","20"])
print(rc, time.time()-t0); print(out.decode()); print(err.decode()[:600])
rc,out,err=run_rdump(["-","-J"], stdin=data); print(rc,out.decode()[:200])
