# recon: C03 oracle prototype — several writers interleaved, per-stream check with an INDEPENDENT frame walker
# (msgpack with own ext hook, no flow.record.packer), plus library read-back. Collision pairs optional (argv[2]=1).
import io, sys, struct, hashlib, random, warnings, collections, msgpack
warnings.simplefilter("ignore")
from flow.record import RecordDescriptor, RecordStreamWriter, RecordStreamReader, GroupedRecord
def ext_hook(code, data):
    assert code == 14
    sub, payload = msgpack.unpackb(data, raw=False, ext_hook=ext_hook, use_list=False, unicode_errors="surrogateescape", strict_map_key=False)
    return ("EXT", sub, payload)
def walk(buf):
    pos = 0
    while pos + 4 <= len(buf):
        L = struct.unpack(">I", buf[pos:pos + 4])[0]; body = buf[pos + 4:pos + 4 + L]; pos += 4 + L
        yield msgpack.unpackb(body, raw=False, ext_hook=ext_hook, use_list=False, unicode_errors="surrogateescape", strict_map_key=False)
def ident(name, fields):
    data = name + "".join(f"{n}{t}" for t, n in fields)
    return (name, int.from_bytes(hashlib.sha256(data.encode()).digest()[:4], "big"))
POOL = [RecordDescriptor("t/a", [("string", "x")]), RecordDescriptor("t/a", [("string", "x"), ("varint", "y")]), RecordDescriptor("t/a", [("varint", "x")]),
        RecordDescriptor("t/b", [("string", "q")]), RecordDescriptor("t/n", [("string", "only_nested")])]
if len(sys.argv) > 2 and sys.argv[2] == "1":
    POOL += [RecordDescriptor("col/x", [("stringlist", "a"), ("string", "b")]), RecordDescriptor("col/x", [("string", "a"), ("string", "listb")])]
H = RecordDescriptor("t/h", [("record", "child"), ("record[]", "kids")])
def plain(rng):
    d = rng.choice(POOL); vals = []
    for t, n in d.get_field_tuples(): vals.append({"string": "s", "varint": 1, "stringlist": ["l"]}[t])
    return d(*vals)
def mk(rng):
    k = rng.random()
    if k < .6: return plain(rng)
    if k < .8: return H(plain(rng) if rng.random() < .7 else None, [plain(rng) for _ in range(rng.randrange(3))])
    return GroupedRecord("g/x", [plain(rng), plain(rng)])
def expected_descs(r):
    """descriptor (name, fields) of every record frame nested in r, in msgpack traversal order: outer first"""
    if isinstance(r, GroupedRecord): return [("G", [(x._desc.name, x._desc.get_field_tuples()) for x in r.records])]
    out = [(r._desc.name, r._desc.get_field_tuples())]
    for t, n in r._desc.get_field_tuples():
        v = getattr(r, n)
        if t == "record" and v is not None: out += expected_descs(v)
        if t == "record[]": 
            for x in v: out += expected_descs(x)
    return out
def check_stream(buf, recs):
    emitted = {}; errs = []; it = iter(recs)
    def visit(node, exp):
        # node: ("EXT", sub, payload); exp: list of expected descs consumed in order
        if not (isinstance(node, tuple) and node and node[0] == "EXT"):
            if isinstance(node, (tuple, list)):
                for x in node: visit(x, exp)
            return
        _, sub, payload = node
        if sub == 1:
            (name, h), values = payload; want = exp.pop(0)
            got = emitted.get((name, h))
            if got is None: errs.append("REC before DESC %s" % name)
            elif got != want: errs.append("REC decoded with other descriptor: want %s got %s" % (want, got))
            visit(values, exp)
        elif sub == 0x12:
            name, members = payload; want = exp.pop(0); assert want[0] == "G"
            for ((n, h), values), w in zip(members, want[1]):
                got = emitted.get((n, h))
                if got is None: errs.append("GROUP member before DESC %s" % n)
                elif got != w: errs.append("GROUP member decoded with other descriptor")
        elif sub in (0x10, 0x11): pass
    for obj in walk(buf):
        if obj == b"RECORDSTREAM\n": continue
        _, sub, payload = obj
        if sub == 2:
            name, fields = payload; fields = tuple(tuple(f) for f in fields); emitted[ident(name, fields)] = (name, fields)
        else:
            r = next(it); visit(obj, expected_descs(r))
    return errs
bad = collections.Counter()
for seed in range(int(sys.argv[1]) if len(sys.argv) > 1 else 300):
    rng = random.Random(seed); nw = rng.randrange(1, 4)
    bufs = [io.BytesIO() for _ in range(nw)]; ws = [RecordStreamWriter(b) for b in bufs]; logs = [[] for _ in range(nw)]
    for step in range(rng.randrange(1, 14)):
        i = rng.randrange(nw); r = mk(rng); ws[i].write(r); logs[i].append(r)
        if rng.random() < .2:   # a reader runs in the same process in between (re-points cached classes' _desc)
            j = rng.randrange(nw)
            try: list(RecordStreamReader(io.BytesIO(bufs[j].getvalue())))
            except Exception: pass
    for i in range(nw):
        data = bufs[i].getvalue(); ws[i].fp = None
        if not logs[i]: continue   # a writer that never wrote leaves 0 bytes (that is C17's finding, not C03's)
        for e in check_stream(data, logs[i]): bad[e.split(":")[0][:40]] += 1
        try:
            back = list(RecordStreamReader(io.BytesIO(data)))
            for a, b in zip(back, logs[i]):
                if a._desc.get_field_tuples() != b._desc.get_field_tuples() or a._desc.name != b._desc.name: bad["readback descriptor differs"] += 1
            if len(back) != len(logs[i]): bad["readback count"] += 1
        except Exception as e: bad["readback exc " + type(e).__name__] += 1
print("bad", sum(bad.values()), dict(bad))
