#!/bin/bash
# soak: every claimed quick check under many VERIF_SEED values on the unchanged tree; any exit != 0 is reported
cd "$(dirname "$0")"
N=${1:-20}
START=${2:-100}
export VERIF_EVIDENCE_DIR=$(mktemp -d /dev/shm/soak-ev.XXXX) VERIF_REPLAY_DIR=${VERIF_REPLAY_DIR:-/dev/shm/soak-replays} VERIF_MINIMISE_S=20
bad=0
for s in $(seq $START $((START+N-1))); do
  for p in C03 C04 C11 C16 C17 C18; do
    out=$(VERIF_SEED=$s ./check $p quick 2>&1); rc=$?
    if [ $rc -ne 0 ]; then bad=$((bad+1)); echo "SOAK-FAIL $p seed=$s rc=$rc"; echo "$out" | grep -E "^violation|VIOLATION|HARNESS" | cut -c1-400; fi
  done
  echo "seed $s done (bad so far: $bad)"
done
rm -rf "$VERIF_EVIDENCE_DIR"
echo "soak finished: $bad failing runs"
